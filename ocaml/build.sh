#!/bin/sh
# builds the driver from the extracted model; run from /verif/ocaml
set -e
cd "$(dirname "$0")"
ocamlfind ocamlopt -O2 -w -a -package str model.mli model.ml common.ml core_cases.ml text_cases.ml text_checks.ml checks.ml driver.ml -o driver 2>/dev/null || \
ocamlfind ocamlopt -w -a model.mli model.ml common.ml core_cases.ml text_cases.ml text_checks.ml checks.ml driver.ml -o driver
