(* Line-oriented driver around the extracted model (model.ml).  Trusted glue:
   parses case lines, converts decimal <-> extracted numbers, prints result
   lines in the harness's canonical format.  No property logic here: checkers
   are extracted Coq functions called from [Checks]. *)
open Common
open Core_cases

let run_case (line : string) : string =
  let comp, h = parse_kv line in
  match comp with
  | "raw" -> case_raw h
  | "capture" -> case_capture h
  | "adapter" -> case_adapter h
  | "group" -> case_group h
  | "costs" -> "ORACLE"
  | "iter" -> case_iter h
  | _ -> Text_cases.run comp h

let () =
  let mode = Sys.argv.(1) in
  match mode with
  | "model" ->
      (* driver model <cases> [dbg] *)
      if Array.length Sys.argv > 3 && Sys.argv.(3) = "dbg" then dbg := true;
      let ic = open_in Sys.argv.(2) in
      let out = Buffer.create 65536 in
      (try
         while true do
           let line = input_line ic in
           let r = try run_case line with Stack_overflow -> "STACKOVERFLOW" in
           Buffer.add_string out r;
           Buffer.add_char out '\n'
         done
       with End_of_file -> ());
      print_string (Buffer.contents out)
  | "check" ->
      (* driver check <cases> <impl-results> : run the verified checkers on the
         implementation's outputs *)
      Checks.main Sys.argv.(2) Sys.argv.(3)
  | _ -> failwith "usage: driver model|check ..."
