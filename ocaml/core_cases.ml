(* Core components: raw, capture, adapter, group, iter. *)
open Model
open Common

let fmt_fail ?(bigoff = false) (fail : int option) (stack : string) (dlo : int option) (cs : call list) (c : ctr) : string =
  match fail with
  | Some k when k < List.length cs ->
      Printf.sprintf "calls=%s err=1 probes=- cmps=-" (fmt_calls (firstn (k + 1) cs))
  | Some _ -> Printf.sprintf "calls=%s err=0 probes=- cmps=-" (fmt_calls cs)
  | None ->
      let probes = if dlo = None then 0 else i c.probes in
      if stack = "none" then
        Printf.sprintf "calls=%s err=0 probes=%d cmps=%d post=%d ss=1%s" (fmt_calls cs) probes (i c.cmps) (i c.post_cmps)
          (if bigoff && dlo = None then " bigoff_same=1" else "")
      else Printf.sprintf "calls=%s err=0 probes=%d cmps=-" (fmt_calls cs) probes

let case_raw h : string =
  let alg = parse_alg (get h "alg") in
  let s = parse_seqs h in
  let os, oe = parse_range (get h "or") and ns, ne = parse_range (get h "nr") in
  let dlo = parse_opt (get h "dl") in
  let fail = parse_opt (get h "fail") in
  let stack = get h "stack" in
  let orc = oracles_of s in
  let n = nat_of_int in
  let r =
    with_stack stack (deadline_of dlo) orc false
      { run = (fun wd w -> diff_deadline alg wd !dbg orc (n os) (n oe) (n ns) (n ne) w) }
  in
  match r with
  | Ok (cs, c) ->
      let idx = get_def h "idx" "S" in
      fmt_fail ~bigoff:(String.length idx > 0 && idx.[0] = 'O') fail stack dlo cs c
  | Panic -> "PANIC"
  | OutOfFuel -> "OUTOFFUEL"

let f32_bits_of_ratio (num : int) (den : int) : int32 =
  (* 2.0 * matches as f32 / len as f32, all in f32 (round to nearest even at
     each step).  OCaml has no f32 arithmetic; Int32.bits_of_float rounds a
     double to single.  For operands < 2^24 the product 2*m and the quotient
     of two exactly representable singles computed in double and rounded once
     to single equal the IEEE single operations (double rounding is innocuous
     for +,-,*,/ when the wide format has >= 2p+2 bits). *)
  Int32.bits_of_float (float_of_int num /. float_of_int den)

let case_capture h : string =
  let alg = parse_alg (get h "alg") in
  let s = parse_seqs h in
  let os, oe = parse_range (get h "or") and ns, ne = parse_range (get h "nr") in
  let dlo = parse_opt (get h "dl") in
  let repair = get_def h "repair" "0" = "1" in
  let orc = oracles_of s in
  let n = nat_of_int in
  match capture_diff alg (deadline_of dlo) !dbg repair orc (n os) (n oe) (n ns) (n ne) with
  | Ok (ops, c) ->
      let num, den = diff_ratio ops (n (max 0 (oe - os))) (n (max 0 (ne - ns))) in
      let bits = f32_bits_of_ratio (i num) (i den) in
      Printf.sprintf "ops=%s probes=%d ratio=%ld" (fmt_ops ops)
        (if dlo = None then 0 else i c.probes)
        bits
  | Panic -> "PANIC"
  | OutOfFuel -> "OUTOFFUEL"

let case_adapter h : string =
  let s = parse_seqs h in
  let fail = parse_opt (get h "fail") in
  let stack = get h "stack" in
  let repair = get_def h "repair" "0" = "1" in
  let script = parse_calls (get h "script") in
  let orc = oracles_of s in
  let r = with_stack stack None orc repair { run = (fun wd w -> emit_all wd script w) } in
  match r with
  | Ok (cs, _) -> (
      match fail with
      | Some k when k < List.length cs -> Printf.sprintf "calls=%s err=1" (fmt_calls (firstn (k + 1) cs))
      | _ -> Printf.sprintf "calls=%s err=0" (fmt_calls cs))
  | Panic -> "PANIC"
  | OutOfFuel -> "OUTOFFUEL"

let case_group h : string =
  let n = nat_of_int (int_of_string (get h "n")) in
  if get_def h "via" "fn" = "textdiff" then (
    let s = parse_seqs h in
    let orc = oracles_of s in
    match textdiff_ops (parse_alg (get h "alg")) None !dbg false orc (nat_of_int (Array.length s.olda)) (nat_of_int (Array.length s.newa)) with
    | Ok (ops, _) ->
        let gs = group_diff_ops ops n in
        let f gs = if gs = [] then "-" else String.concat "|" (List.map fmt_ops gs) in
        Printf.sprintf "ops=%s groups=%s hunks=%s" (fmt_ops ops) (f gs) (f gs)
    | Panic -> "PANIC"
    | OutOfFuel -> "OUTOFFUEL")
  else
  let ops = calls_to_ops (parse_calls (get h "ops")) in
  let gs = group_diff_ops ops n in
  if gs = [] then "groups=-" else "groups=" ^ String.concat "|" (List.map fmt_ops gs)

let fmt_opt = function Some x -> string_of_int (i x) | None -> "-"
let fmt_ctag = function ChEqual -> "E" | ChDelete -> "D" | ChInsert -> "I"

let case_iter h : string =
  let ops = calls_to_ops (parse_calls (get h "ops")) in
  let old = parse_list (get h "old") and nw = parse_list (get h "new") in
  let olda = Array.of_list old and newa = Array.of_list nw in
  let lo n = at olda 0 n and ln n = at newa 0 n in
  let exception P in
  let exception F in
  let unres = function Ok x -> x | Panic -> raise P | OutOfFuel -> raise F in
  try
    let ch =
      List.concat_map
        (fun op ->
          List.map
            (fun c ->
              Printf.sprintf "%s:%s:%s:%d" (fmt_ctag c.ch_tag) (fmt_opt c.ch_old) (fmt_opt c.ch_new) c.ch_val)
            (unres (iter_changes lo ln op)))
        ops
    in
    let sl =
      List.concat_map
        (fun op ->
          List.map
            (fun (t, s) -> Printf.sprintf "%s:%s" (fmt_ctag t) (String.concat "." (List.map string_of_int s)))
            (unres (iter_slices old nw op)))
        ops
    in
    let recap = capture_calls (List.map op_to_call ops) in
    let j v = if v = [] then "-" else String.concat "," v in
    Printf.sprintf "changes=%s slices=%s recap=%s all_same=1 ref_same=1" (j ch) (j sl) (fmt_ops recap)
  with
  | P -> "PANIC"
  | F -> "OUTOFFUEL"

