(* Runs the extracted, Coq-verified boolean checkers (Check/*.v) on the
   IMPLEMENTATION's outputs.  For each case line + implementation result line
   prints "<number of clauses evaluated> <names of failed clauses...>".
   The mapping clause -> property lives in tools/check.py. *)
open Model
open Common

let parse_impl (line : string) : (string, string) Hashtbl.t =
  let h = Hashtbl.create 8 in
  List.iter
    (fun t ->
      match String.index_opt t '=' with
      | Some p -> Hashtbl.replace h (String.sub t 0 p) (String.sub t (p + 1) (String.length t - p - 1))
      | None -> Hashtbl.replace h t "")
    (List.filter (fun x -> x <> "") (String.split_on_char ' ' line));
  h

let n = nat_of_int

let ranges_identical (orc : oracles) os oe ns ne : bool =
  oe - os = ne - ns && seg_eq orc.o_on (n os) (n ns) (n (max 0 (oe - os)))

(* C15: items occurring exactly once in old[os..oe) and exactly once in new[ns..ne):
   the number of them reported Equal with their counterpart must reach the
   longest in-order common subsequence of them (computed by the extracted lcs_len) *)
let anchors_ok (s : seqs) os oe ns ne (ops : op list) : bool =
  let cnt a lo hi v = let c = ref 0 in for k = lo to hi - 1 do if a.(k - 0) = v then incr c done; !c in
  let oldv k = s.olda.(k - s.ko) and newv k = s.newa.(k - s.kn) in
  let occ_old v = let c = ref 0 in for k = os to oe - 1 do if oldv k = v then incr c done; !c in
  let occ_new v = let c = ref 0 in for k = ns to ne - 1 do if newv k = v then incr c done; !c in
  ignore cnt;
  let cuo = List.filter (fun k -> occ_old (oldv k) = 1 && occ_new (oldv k) = 1) (List.init (max 0 (oe - os)) (fun t -> os + t)) in
  let cun = List.filter (fun k -> occ_new (newv k) = 1 && occ_old (newv k) = 1) (List.init (max 0 (ne - ns)) (fun t -> ns + t)) in
  let ao = Array.of_list cuo and an = Array.of_list cun in
  let cmp a b =
    let a = int_of_nat a and b = int_of_nat b in
    if a < Array.length ao && b < Array.length an then Ok (oldv ao.(a) = newv an.(b)) else Panic
  in
  let best = int_of_nat (lcs_len cmp O (n (Array.length ao)) O (n (Array.length an))) in
  (* pairs matched by Equal ops *)
  let matched = Hashtbl.create 64 in
  List.iter (function Equal (o, nn, l) -> for t = 0 to int_of_nat l - 1 do Hashtbl.replace matched (int_of_nat o + t, int_of_nat nn + t) () done | _ -> ()) ops;
  let kept =
    List.length
      (List.filter
         (fun k ->
           let v = oldv k in
           let j = List.find (fun j -> newv j = v) cun in
           Hashtbl.mem matched (k, j))
         cuo)
  in
  kept >= best

(* the same clause for large boxes, without the unary-number DP: occurrences by hash table, the longest in-order
   chain of common unique items by patience sorting on their new-side positions (O(n log n)) *)
let anchors_ok_big (s : seqs) os oe ns ne (ops : op list) : bool =
  let oldv k = s.olda.(k - s.ko) and newv k = s.newa.(k - s.kn) in
  let co = Hashtbl.create 1024 and cn = Hashtbl.create 1024 and posn = Hashtbl.create 1024 in
  let bump h v = Hashtbl.replace h v (1 + try Hashtbl.find h v with Not_found -> 0) in
  for k = os to oe - 1 do bump co (oldv k) done;
  for k = ns to ne - 1 do bump cn (newv k); Hashtbl.replace posn (newv k) k done;
  let once h v = (try Hashtbl.find h v with Not_found -> 0) = 1 in
  (* common unique items in old order, as (old position, new position) *)
  let pairs = ref [] in
  for k = oe - 1 downto os do
    let v = oldv k in
    if once co v && once cn v then pairs := (k, Hashtbl.find posn v) :: !pairs
  done;
  (* longest strictly increasing subsequence of the new positions *)
  let tails = Array.make (List.length !pairs + 1) 0 and len = ref 0 in
  List.iter
    (fun (_, j) ->
      let lo = ref 0 and hi = ref !len in
      while !lo < !hi do
        let mid = (!lo + !hi) / 2 in
        if tails.(mid) < j then lo := mid + 1 else hi := mid
      done;
      tails.(!lo) <- j;
      if !lo = !len then incr len)
    !pairs;
  let matched = Hashtbl.create 1024 in
  List.iter (function Equal (o, nn, l) -> for t = 0 to int_of_nat l - 1 do Hashtbl.replace matched (int_of_nat o + t, int_of_nat nn + t) () done | _ -> ()) ops;
  let kept = List.length (List.filter (fun pr -> Hashtbl.mem matched pr) !pairs) in
  kept >= !len

(* C19: comparisons <= WORK_C * (N + M + 1) * (D + 1), D = size of the reported script *)
(* the constants are the proved ones: c19_myers_work_bound (6), c19_patience_work_bound (12) *)
let work_c alg = if alg = "P" then 12 else 6

let work_ok alg (ops : op list) os oe ns ne (cmps : int) : bool =
  let d = int_of_nat (deleted ops) + int_of_nat (inserted ops) in
  cmps <= work_c alg * (max 0 (oe - os) + max 0 (ne - ns) + 1) * (d + 1)

(* the quadratic optimum (lcs_len on unary numbers) is only evaluated on boxes
   of at most 100 000 cells; larger cases are covered by the other clauses *)
let small_box os oe ns ne = max 0 (oe - os) * max 0 (ne - ns) <= 100_000

let clauses_raw h (impl : string) : (string * bool) list =
  let s = parse_seqs h in
  let orc = oracles_of s in
  let os, oe = parse_range (get h "or") and ns, ne = parse_range (get h "nr") in
  let stack = get h "stack" in
  let fail = parse_opt (get h "fail") in
  let dlo = parse_opt (get h "dl") in
  let alg = get h "alg" in
  if impl = "PANIC" || impl = "TIMEOUT" || impl = "ABORT" then [ ("no_panic", false) ]
  else
    let ih = parse_impl impl in
    let cs = parse_calls (get ih "calls") in
    let err = get ih "err" in
    (* replace_twice: the adapter is used for the same diff twice; both halves of the log must be the same script,
       and that script is judged like the one of stack replace *)
    let rec split_fin acc = function
      | [] -> (List.rev acc, [])
      | CFin :: r -> (List.rev (CFin :: acc), r)
      | c :: r -> split_fin (c :: acc) r
    in
    let twice = stack = "replace_twice" in
    let h1, h2 = if twice then split_fin [] cs else (cs, cs) in
    let cs = if twice then h2 else cs in
    let stack = if twice then "replace" else stack in
    let ops = calls_to_ops cs in
    match fail with
    | Some k ->
        (* a failing hook call aborts the diff: nothing after call k, error returned *)
        let len = List.length cs in
        [ ("no_panic", true);
          ("abort", if err = "1" then len = k + 1 else err = "0" && len <= k) ]
    | None -> (
        let base = [ ("no_panic", true); ("no_error", err = "0") ] @ (if twice then [ ("twice_same", h1 = h2) ] else []) in
        match stack with
        | "none" | "mutref" ->
            base
            @ [ ("raw_valid", check_raw orc.o_on (n os) (n oe) (n ns) (n ne) cs);
                ("finish_last", check_finish_last cs) ]
            @ (if dlo = None && (alg = "M" || alg = "L") && small_box os oe ns ne then
                 [ ("minimal", check_minimal orc.o_on (n os) (n oe) (n ns) (n ne) ops) ]
               else [])
            (* large boxes: the items >= planted occur once on each side and in the same order (checked here), so they
               are a common subsequence of length l0 and a minimal script costs at most N + M - 2 l0 *)
            @ (match Hashtbl.find_opt h "planted" with
               | Some p when dlo = None && (alg = "M" || alg = "L") && os = 0 && ns = 0 && s.ko = 0 && s.kn = 0 ->
                   let p = int_of_string p in
                   let f a = List.filter (fun x -> x >= p) (Array.to_list a) in
                   let po = f s.olda and pn = f s.newa in
                   let l0 = if po = pn && List.length (List.sort_uniq compare po) = List.length po then List.length po else 0 in
                   let cost = int_of_nat (deleted ops) + int_of_nat (inserted ops) in
                   [ ("minimal_planted", cost <= (oe - os) + (ne - ns) - (2 * l0)) ]
               | _ -> [])
            @ (if dlo = None && alg = "P" && small_box os oe ns ne then [ ("anchors_max", anchors_ok s os oe ns ne ops) ]
               else if dlo = None && alg = "P" then [ ("anchors_max", anchors_ok_big s os oe ns ne ops) ]
               else [])
            @ (if dlo = None && stack = "none" && (alg = "M" || alg = "P") then
                 [ ("work_bound", work_ok alg ops os oe ns ne (int_of_string (get ih "cmps"))) ]
               else [])
            (* index spaces 2^32 - 3 and 2^40 further out give the same calls shifted (c01_raw_shift) *)
            @ [ ("big_offsets", get_def ih "bigoff_same" "1" = "1");
                (* comparisons among items of one side (the hash tables of Patience) stay linear *)
                ("same_side_work", get_def ih "ss" "1" = "1") ]
            @ (match dlo with
               | Some _ when stack = "none" ->
                   (* after expiry only a small constant multiple of N+M further comparisons *)
                   let post = int_of_string (get ih "post") in
                   (* the proved bounds (c07_post_expiry_bound): Myers N+M, LCS 0, Patience 2(N+M)+1 *)
                   let nm = max 0 (oe - os) + max 0 (ne - ns) in
                   let bound = match alg with "M" -> nm | "L" -> 0 | _ -> (2 * nm) + 1 in
                   [ ("post_expiry_work", post <= bound) ]
               | _ -> [])
        | "nofinish" ->
            base
            @ [ ("nofinish_no_fin", not (List.mem CFin cs));
                ("raw_valid", check_raw orc.o_on (n os) (n oe) (n ns) (n ne) (cs @ [ CFin ])) ]
        | "replace" ->
            base
            @ [ ("finish_last", check_finish_last cs);
                ("ops_exact", check_ops_exact orc.o_on (n os) (n oe) (n ns) (n ne) ops);
                ("alternating", check_alternating ops) ]
        | "replace_nofinish" ->
            (* NoFinishHook under Replace: everything but finish is forwarded, replace included *)
            base
            @ [ ("nofinish_no_fin", not (List.mem CFin cs));
                ("ops_exact", check_ops_exact orc.o_on (n os) (n oe) (n ns) (n ne) ops);
                ("alternating", check_alternating ops) ]
        | "replace_norep" ->
            base
            @ [ ("finish_last", check_finish_last cs);
                ("no_rep", not (List.exists (function CRep _ -> true | _ -> false) cs));
                ("ops_loose", check_ops_loose orc.o_on (n os) (n oe) (n ns) (n ne) ops) ]
        | "compact" | "replace_compact" ->
            base
            @ [ ("finish_last", check_finish_last cs);
                ("ops_loose", check_ops_loose orc.o_on (n os) (n oe) (n ns) (n ne) ops) ]
        | "compact_replace" ->
            base
            @ [ ("finish_last", check_finish_last cs);
                ("ops_loose", check_ops_loose orc.o_on (n os) (n oe) (n ns) (n ne) ops);
                ("normal", check_normal orc.o_on ops) ]
        | _ -> base)

(* normal form of a captured script by machine integers, for scripts too long for the unary-number checker (its
   numbers alone would not fit in memory): ops alternate Equal / non-Equal, none is empty, the walk is gap-free and
   ends at both range ends, Equal ops pair equal items, and an Insert followed by an Equal has a first item different
   from the Equal's first item.  Mirrors check_ops_loose + check_normal; used only above 100000 ops. *)
let normal_big (s : seqs) os oe ns ne (ops : string) : bool =
  let oldv k = s.olda.(k - s.ko) and newv k = s.newa.(k - s.kn) in
  let parsed =
    List.map
      (fun t ->
        match String.split_on_char ':' t with
        | [ "E"; a; b; c ] -> ('E', int_of_string a, int_of_string b, int_of_string c, 0)
        | [ "D"; a; b; c ] -> ('D', int_of_string a, int_of_string b, int_of_string c, 0)
        | [ "I"; a; b; c ] -> ('I', int_of_string a, int_of_string b, int_of_string c, 0)
        | [ "R"; a; b; c; d ] -> ('R', int_of_string a, int_of_string b, int_of_string c, int_of_string d)
        | _ -> failwith "bad op")
      (String.split_on_char ',' ops)
  in
  let rec seg_eq o n l = l = 0 || (oldv o = newv n && seg_eq (o + 1) (n + 1) (l - 1)) in
  let rec go ops co cn prev_eq first =
    match ops with
    | [] -> co = oe && cn = ne
    | ('E', o, n, l, _) :: r -> o = co && n = cn && l > 0 && (not prev_eq) && seg_eq o n l && go r (co + l) (cn + l) true false
    | ('D', o, l, _, _) :: r -> o = co && l > 0 && (prev_eq || first) && go r (co + l) cn false false
    | ('I', _, n, l, _) :: r ->
        n = cn && l > 0 && (prev_eq || first)
        && (match r with ('E', eo, _, _, _) :: _ -> oldv eo <> newv n | _ -> true)
        && go r co (cn + l) false false
    | ('R', o, ol, n, nl) :: r -> o = co && n = cn && ol > 0 && nl > 0 && (prev_eq || first) && go r (co + ol) (cn + nl) false false
    | _ -> false
  in
  go parsed os ns false true

let clauses_capture h (impl : string) : (string * bool) list =
  let s = parse_seqs h in
  let orc = oracles_of s in
  let os, oe = parse_range (get h "or") and ns, ne = parse_range (get h "nr") in
  let dlo = parse_opt (get h "dl") in
  let alg = get h "alg" in
  if impl = "PANIC" || impl = "TIMEOUT" || impl = "ABORT" then [ ("no_panic", false) ]
  else if String.length impl > 300_000 then
    (* a script of several hundred thousand ops *)
    let ih = parse_impl impl in
    [ ("no_panic", true); ("normal_big", normal_big s os oe ns ne (get ih "ops")) ]
  else
    let ih = parse_impl impl in
    let ops = calls_to_ops (parse_calls (get ih "ops")) in
    let bits = Int32.of_string (get ih "ratio") in
    let r = Int32.float_of_bits bits in
    let ident = ranges_identical orc os oe ns ne in
    let len = max 0 (oe - os) in
    [ ("no_panic", true);
      ("ops_loose", check_ops_loose orc.o_on (n os) (n oe) (n ns) (n ne) ops);
      ("ops_exact", check_ops_exact orc.o_on (n os) (n oe) (n ns) (n ne) ops);
      ("normal", check_normal orc.o_on ops);
      ("anchors_max", dlo <> None || alg <> "P" || not (small_box os oe ns ne) || anchors_ok s os oe ns ne ops);
      ("ratio_range", r >= 0.0 && r <= 1.0 && (r = 1.0) = ident);
      ( "identical_only_equal",
        (not ident) || ops = if len = 0 then [] else [ Equal (n os, n ns, n len) ] ) ]
    @ (match dlo with
       | Some _ when alg = "M" || alg = "L" ->
           (* the deadline reaches the algorithm: when both ranges are non-empty and
              differ in their first and in their last item, Myers enters the
              middle-snake search and LCS builds its table, each of which probes
              the deadline at least once *)
           let must_probe =
             os < oe && ns < ne
             && orc.o_on (n os) (n ns) = Ok false
             && orc.o_on (n (oe - 1)) (n (ne - 1)) = Ok false
           in
           [ ("deadline_plumbed", (not must_probe) || int_of_string (get ih "probes") > 0) ]
       | _ -> [])
    @
    if dlo = None && (alg = "M" || alg = "L") && small_box os oe ns ne then
      let l = int_of_nat (lcs_len orc.o_on (n os) (n oe) (n ns) (n ne)) in
      let tot = max 0 (oe - os) + max 0 (ne - ns) in
      [ ("minimal", check_minimal orc.o_on (n os) (n oe) (n ns) (n ne) ops);
        ("equal_is_lcs", int_of_nat (equal_total ops) = l);
        ("ratio_2L", if tot = 0 then r = 1.0 else bits = Core_cases.f32_bits_of_ratio (2 * l) tot) ]
    else []

let clauses_adapter h (impl : string) : (string * bool) list =
  let s = parse_seqs h in
  let orc = oracles_of s in
  let os, oe = (0, Array.length s.olda) and ns, ne = (0, Array.length s.newa) in
  let stack = get h "stack" in
  let fail = parse_opt (get h "fail") in
  let script = parse_calls (get h "script") in
  if impl = "PANIC" || impl = "TIMEOUT" || impl = "ABORT" then [ ("no_panic", false) ]
  else
    let ih = parse_impl impl in
    let cs = parse_calls (get ih "calls") in
    let err = get ih "err" in
    (* replace_twice: the script is fed twice to one Replace adapter; both halves of the log must agree *)
    let rec split_fin acc = function
      | [] -> (List.rev acc, [])
      | CFin :: r -> (List.rev (CFin :: acc), r)
      | c :: r -> split_fin (c :: acc) r
    in
    let twice = stack = "replace_twice" && fail = None in
    let h1, h2 = if twice then split_fin [] cs else (cs, cs) in
    let cs = if twice then h2 else cs in
    let stack = if twice then "replace" else stack in
    let ops = calls_to_ops cs in
    let inp = calls_to_ops script in
    match fail with
    | Some k ->
        let len = List.length cs in
        [ ("no_panic", true); ("abort", if err = "1" then len = k + 1 else err = "0" && len <= k) ]
    | None ->
        [ ("no_panic", true);
          ("no_error", err = "0");
          ("finish_last",
           if stack = "nofinish" || stack = "replace_nofinish" then not (List.mem CFin cs) else check_finish_last cs);
          ("ops_loose", check_ops_loose orc.o_on (n os) (n oe) (n ns) (n ne) ops);
          ("cost_kept", deleted ops = deleted inp && inserted ops = inserted inp) ]
        @ (if twice then [ ("twice_same", h1 = h2) ] else [])
        @ (if stack = "mutref" then [ ("forwards_unchanged", cs = script) ] else [])
        @ (if stack = "norep" then
             (* the default replace body: delete then insert, whatever the lengths *)
             let expand =
               List.concat_map (function CRep (o, ol, n, nl) -> [ CDel (o, ol, n); CIns (o, n, nl) ] | c -> [ c ]) script
             in
             [ ("forwards_unchanged", cs = expand) ]
           else [])
        @ (if stack = "nofinish" then [ ("forwards_unchanged", cs = List.filter (fun c -> c <> CFin) script) ] else [])
        @ (if stack = "compact_replace" then [ ("normal", check_normal orc.o_on ops) ] else [])
        @ if stack = "replace" then [ ("ops_exact", check_ops_exact orc.o_on (n os) (n oe) (n ns) (n ne) ops) ] else []

let clauses_iter h (impl : string) : (string * bool) list =
  if impl = "PANIC" || impl = "TIMEOUT" || impl = "ABORT" then [ ("no_panic", false) ]
  else
    let ih = parse_impl impl in
    let ops = calls_to_ops (parse_calls (get h "ops")) in
    let old = parse_list (get h "old") and nw = parse_list (get h "new") in
    let olda = Array.of_list old and newa = Array.of_list nw in
    let lo k = at olda 0 k and ln k = at newa 0 k in
    let fmt_change c =
      Printf.sprintf "%s:%s:%s:%d" (Core_cases.fmt_ctag c.ch_tag) (Core_cases.fmt_opt c.ch_old)
        (Core_cases.fmt_opt c.ch_new) c.ch_val
    in
    let j v = if v = [] then "-" else String.concat "," v in
    let exp_changes = match expand_all lo ln ops with Some cs -> Some (j (List.map fmt_change cs)) | None -> None in
    (* slices: per op, the values of its expansion grouped by tag (one group, two for Replace) *)
    let exp_slices =
      try
        Some
          (j
             (List.concat_map
                (fun op ->
                  match expand_op lo ln op with
                  | None -> raise Exit
                  | Some cs ->
                      let vals t = List.filter_map (fun c -> if c.ch_tag = t then Some (string_of_int c.ch_val) else None) cs in
                      let one t = Printf.sprintf "%s:%s" (Core_cases.fmt_ctag t) (String.concat "." (vals t)) in
                      (match op with
                       | Equal _ -> [ one ChEqual ]
                       | Delete _ -> [ one ChDelete ]
                       | Insert _ -> [ one ChInsert ]
                       | Replace _ -> [ one ChDelete; one ChInsert ]))
                ops))
      with Exit -> None
    in
    [ ("no_panic", true);
      ("iter_spec", exp_changes = Some (get ih "changes"));
      ("slices_spec", exp_slices = Some (get ih "slices"));
      (* re-applying every op to a capturing hook reproduces it, owned hook and borrowed (&mut D) hook alike *)
      ("recap_id", get ih "recap" = fmt_ops ops && get ih "ref_same" = "1");
      (* whole-list iteration = concatenation of per-op expansions, for ANY op list *)
      ("all_changes_concat", get ih "all_same" = "1") ]

let clauses_group h (impl : string) : (string * bool) list =
  if impl = "PANIC" || impl = "TIMEOUT" || impl = "ABORT" then [ ("no_panic", false) ]
  else
    let ih = parse_impl impl in
    let nn = nat_of_int (int_of_string (get h "n")) in
    let textdiff = get_def h "via" "fn" = "textdiff" in
    (* via=textdiff: the ops are the text diff's own (reported by the implementation) *)
    let ops = calls_to_ops (parse_calls (if textdiff then get ih "ops" else get h "ops")) in
    let groups key =
      match get ih key with
      | "-" -> []
      | s -> List.map (fun g -> calls_to_ops (parse_calls g)) (String.split_on_char '|' s)
    in
    [ ("no_panic", true);
      ("group_spec", check_groups ops nn (groups "groups") && ((not textdiff) || check_groups ops nn (groups "hunks"))) ]

(* Myers and the crate's LCS algorithm are both minimal (c03_myers_minimal, c03_lcs_minimal): on the same input
   their raw scripts cost the same *)
let clauses_costs _h (impl : string) : (string * bool) list =
  if impl = "PANIC" || impl = "TIMEOUT" || impl = "ABORT" then [ ("no_panic", false) ]
  else
    let ih = parse_impl impl in
    [ ("no_panic", true); ("minimal_agree", get ih "M" = get ih "L") ]

let clauses (line : string) (impl : string) : (string * bool) list =
  let comp, h = parse_kv line in
  if impl = "SKIPPED" then [] else
  match comp with
  | "raw" -> clauses_raw h impl
  | "capture" -> clauses_capture h impl
  | "adapter" -> clauses_adapter h impl
  | "iter" -> clauses_iter h impl
  | "group" -> clauses_group h impl
  | "costs" -> clauses_costs h impl
  | _ -> Text_checks.clauses comp h impl

let main (cases : string) (impl : string) : unit =
  let ic = open_in cases and ii = open_in impl in
  let out = Buffer.create 65536 in
  (try
     while true do
       let line = input_line ic in
       let il = input_line ii in
       let cl = try clauses line il with Failure m -> [ ("checker_error:" ^ m, false) ] | Not_found -> [ ("checker_error", false) ] in
       Buffer.add_string out (string_of_int (List.length cl));
       List.iter (fun (nm, ok) -> if not ok then (Buffer.add_char out ' '; Buffer.add_string out nm)) cl;
       Buffer.add_char out '\n'
     done
   with End_of_file -> ());
  print_string (Buffer.contents out)
