(* Runs the extracted, Coq-verified checkers on implementation outputs. *)
let main (_prop : string) (_cases : string) (_impl : string) : unit = failwith "no checkers yet"
