(* Text-layer components (filled in as the text model grows). *)
let run (comp : string) (_h : (string, string) Hashtbl.t) : string = "UNKNOWN-COMPONENT " ^ comp
