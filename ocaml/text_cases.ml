(* Text-layer components run on the extracted model: tok, utf8, ws, textdiff,
   udiff, remap, slices, inline, identify, repeat.  Trusted glue only. *)
open Model
open Common

(* ---------- N <-> int, hex ---------- *)
let rec pos_of_int (k : int) : positive =
  if k <= 1 then XH else if k land 1 = 0 then XO (pos_of_int (k lsr 1)) else XI (pos_of_int (k lsr 1))

let n_of_int (k : int) : n = if k <= 0 then N0 else Npos (pos_of_int k)

let rec int_of_pos = function XH -> 1 | XO p -> 2 * int_of_pos p | XI p -> (2 * int_of_pos p) + 1
let int_of_n = function N0 -> 0 | Npos p -> int_of_pos p

let unhex (s : string) : n list =
  if s = "-" then []
  else List.init (String.length s / 2) (fun i -> n_of_int (int_of_string ("0x" ^ String.sub s (2 * i) 2)))

let hex (b : n list) : string =
  if b = [] then "-" else String.concat "" (List.map (fun x -> Printf.sprintf "%02x" (int_of_n x)) b)

let join sep v = if v = [] then "-" else String.concat sep v
let ni = nat_of_int
let i = int_of_nat

let string_of_bytes (b : n list) : string = String.init (List.length b) (fun k -> Char.chr (int_of_n (List.nth b k)))

let str_of (b : n list) : string =
  let buf = Buffer.create 16 in
  List.iter (fun x -> Buffer.add_char buf (Char.chr (int_of_n x))) b;
  Buffer.contents buf

(* ---------- tokenizers ---------- *)
let fmt_toks (ts : (nat * nat) list) : string = join "," (List.map (fun (s, e) -> Printf.sprintf "%d:%d" (i s) (i e)) ts)

let parse_toks (s : string) : (nat * nat) list =
  if s = "-" then []
  else
    List.map
      (fun t ->
        match String.split_on_char ':' t with
        | [ a; b ] -> (ni (int_of_string a), ni (int_of_string b))
        | _ -> failwith "bad token bounds")
      (String.split_on_char ',' s)

let tk_of = function
  | "lines" -> Some TkLines
  | "lnl" -> Some TkLinesNewlines
  | "words" -> Some TkWords
  | "chars" -> Some TkChars
  | _ -> None

let bytes_mode h = get h "mode" = "bytes"

exception LossyOracle

(* tokens of a text: the model's tokenizer, or the replayed oracle boundaries *)
let tokens_of h (kind : string) (key : string) (text : n list) : (nat * nat) list =
  match tk_of kind with
  | Some k -> tokenize (bytes_mode h) k text
  | None -> if get h key = "LOSSY" then raise LossyOracle else parse_toks (get h key)

let case_tok h : string =
  match tk_of (get h "kind") with
  | Some k -> "toks=" ^ fmt_toks (tokenize (bytes_mode h) k (unhex (get h "text")))
  | None -> "ORACLE"

let fmt_dchars strmode (cs : dchar list) =
  join ","
    (List.map
       (fun c ->
         Printf.sprintf "%d:%d:%d" (i c.dc_start)
           (if strmode then i c.dc_start + i (len_utf8 c.dc_cp) else i c.dc_end)
           (int_of_n c.dc_cp))
       cs)

let case_utf8 h : string =
  let t = unhex (get h "text") in
  let cs = decode t in
  let valid = valid_utf8 t in
  Printf.sprintf "chars=%s lossy=%s valid=%d strchars=%s" (fmt_dchars false cs) (hex (lossy t))
    (if valid then 1 else 0)
    (if valid then fmt_dchars true cs else "invalid")

let case_ws h : string =
  let lo, hi = parse_range (get h "range") in
  let v = ref [] in
  for cp = hi - 1 downto lo do
    if not (cp >= 0xD800 && cp <= 0xDFFF) && cp <= 0x10FFFF && is_whitespace (n_of_int cp) then
      v := string_of_int cp :: !v
  done;
  "ws=" ^ join "," !v

(* ---------- text diff ---------- *)
let item_oracles (olda : string array) (newa : string array) : oracles =
  let at a k = let x = i k in if x < Array.length a then Some a.(x) else None in
  let on ii jj = match (at newa jj, at olda ii) with Some y, Some x -> Ok (String.equal y x) | _ -> Panic in
  let same a ii jj = match (at a ii, at a jj) with Some x, Some y -> Ok (String.equal x y) | _ -> Panic in
  { o_on = on; o_oo = same olda; o_nn = same newa }

let items (text : n list) (toks : (nat * nat) list) : n list list = List.map (fun t -> tok_bytes text t) toks

type tdiff = { ops : op list; probes : int; olds : n list list; news : n list list; otoks : (nat * nat) list; ntoks : (nat * nat) list; nt : bool }

exception RPanic
exception RFuel

let unres = function Ok x -> x | Panic -> raise RPanic | OutOfFuel -> raise RFuel

let text_diff h (kind : string) (repair : bool) : tdiff =
  let o = unhex (get h "old") and n = unhex (get h "new") in
  let otoks = tokens_of h kind "otoks" o and ntoks = tokens_of h kind "ntoks" n in
  let olds = items o otoks and news = items n ntoks in
  let oa = Array.of_list (List.map str_of olds) and na = Array.of_list (List.map str_of news) in
  let alg = parse_alg (get h "alg") in
  let dlo = match Hashtbl.find_opt h "dl" with Some s -> parse_opt s | None -> None in
  (* a timeout too large for an Instant is no deadline at all *)
  let dlo = if get_def h "via" "deadline" = "timeout_max" then None else dlo in
  let ops, c = unres (textdiff_ops alg (deadline_of dlo) !dbg repair (item_oracles oa na) (ni (Array.length oa)) (ni (Array.length na))) in
  let nt =
    newline_flag
      (match get_def h "nlo" "-" with "0" -> Some false | "1" -> Some true | _ -> None)
      (kind = "lines")
  in
  { ops; probes = (if dlo = None then 0 else i c.probes); olds; news; otoks; ntoks; nt }

let fmt_change (c : n list change) =
  Printf.sprintf "%s:%s:%s:%s" (Core_cases.fmt_ctag c.ch_tag) (Core_cases.fmt_opt c.ch_old) (Core_cases.fmt_opt c.ch_new)
    (hex c.ch_val)

let lookup_of (l : n list list) : n list lookup =
  let a = Array.of_list l in
  fun k -> let x = i k in if x < Array.length a then Some a.(x) else None

let case_textdiff h : string =
  let kind = get h "tok" in
  let repair = get_def h "repair" "0" = "1" in
  let d = text_diff h kind repair in
  let num, den = diff_ratio d.ops (ni (List.length d.olds)) (ni (List.length d.news)) in
  let changes = unres (iter_all_changes (lookup_of d.olds) (lookup_of d.news) d.ops) in
  (* "direct": capture_diff_slices on the token slices, no deadline *)
  let direct =
    let oa = Array.of_list (List.map str_of d.olds) and na = Array.of_list (List.map str_of d.news) in
    fst (unres (capture_diff (parse_alg (get h "alg")) None !dbg repair (item_oracles oa na) O (ni (Array.length oa)) O (ni (Array.length na))))
  in
  Printf.sprintf "ops=%s direct=%s nt=%d alg=%s probes=%d ratio=%ld otoks=%s ntoks=%s changes=%s perop_same=1 ctor_same=1" (fmt_ops d.ops)
    (fmt_ops direct)
    (if d.nt then 1 else 0)
    (get h "alg") d.probes
    (Core_cases.f32_bits_of_ratio (i num) (i den))
    (fmt_toks d.otoks) (fmt_toks d.ntoks)
    (join "," (List.map fmt_change changes))

let case_udiff h : string =
  let repair = get_def h "repair" "0" = "1" in
  let d = text_diff h "lines" repair in
  let radius = ni (int_of_string (get h "radius")) in
  let header = if get h "header" = "1" then Some ([ n_of_int 97 ], [ n_of_int 98 ]) else None in
  let via = get h "via" in
  let hint = if via = "fn" then true else get h "hint" = "1" in
  let lossy_values = via = "display" && bytes_mode h in
  (* "writer1" = the same writer output through a sink that takes one byte per write call *)
  let out = unres (render_udiff d.olds d.news d.nt hint lossy_values d.ops radius header) in
  if via = "display" then
    let w = unres (render_udiff d.olds d.news d.nt hint false d.ops radius header) in
    Printf.sprintf "out=%s writer_same=%d lossy_writer_same=%d" (hex out) (if w = out then 1 else 0)
      (if lossy w = out then 1 else 0)
  else "out=" ^ hex out

let fmt_slices (v : (ctag * n list) list) =
  join "," (List.map (fun (t, s) -> Printf.sprintf "%s:%s" (Core_cases.fmt_ctag t) (hex s)) v)

let case_remap h : string =
  let kind = get h "tok" in
  let d = text_diff h kind false in
  let o = unhex (get h "old") and n = unhex (get h "new") in
  let tail bounds =
    Printf.sprintf "ops=%s otoks=%s ntoks=%s bounds=%s" (fmt_ops d.ops) (fmt_toks d.otoks) (fmt_toks d.ntoks) bounds
  in
  if kind = "lines" then
    let changes = unres (iter_all_changes (lookup_of d.olds) (lookup_of d.news) d.ops) in
    let oa = Array.of_list d.otoks and na = Array.of_list d.ntoks in
    let bounds =
      join ","
        (List.map
           (fun c ->
             let s, e =
               match (c.ch_tag, c.ch_old, c.ch_new) with
               | ChInsert, _, Some j -> na.(i j)
               | _, Some k, _ -> oa.(i k)
               | _ -> failwith "change without index"
             in
             Printf.sprintf "%s:%d:%d" (Core_cases.fmt_ctag c.ch_tag) (i s) (i e))
           changes)
    in
    Printf.sprintf "slices=%s remapper_same=1 %s" (fmt_slices (List.map (fun c -> (c.ch_tag, c.ch_val)) changes)) (tail bounds)
  else
    let oidx = remap_indexes (List.map Model.length d.olds) O and nidx = remap_indexes (List.map Model.length d.news) O in
    let v = unres (remap_ops o n oidx nidx d.ops) in
    (* offsets of the slices: cumulative token lengths *)
    let oa = Array.of_list oidx and na = Array.of_list nidx in
    let bounds =
      join ","
        (List.concat_map
           (fun op ->
             let ob a b = Printf.sprintf "%d:%d" (i (fst oa.(i a))) (i (snd oa.(i b - 1))) in
             let nb a b = Printf.sprintf "%d:%d" (i (fst na.(i a))) (i (snd na.(i b - 1))) in
             match op with
             | Equal (o, _, l) -> [ "E:" ^ ob o (add o l) ]
             | Delete (o, l, _) -> [ "D:" ^ ob o (add o l) ]
             | Insert (_, n, l) -> [ "I:" ^ nb n (add n l) ]
             | Replace (o, l1, n, l2) -> [ "D:" ^ ob o (add o l1); "I:" ^ nb n (add n l2) ])
           d.ops)
    in
    Printf.sprintf "slices=%s remapper_same=1 %s" (fmt_slices v) (tail bounds)

let case_slices h : string =
  let alg = parse_alg (get h "alg") in
  let old = parse_list (get h "old") and nw = parse_list (get h "new") in
  let s = { olda = Array.of_list old; newa = Array.of_list nw; ko = 0; kn = 0 } in
  let ops, _ =
    unres (capture_diff alg None !dbg false (oracles_of s) O (ni (List.length old)) O (ni (List.length nw)))
  in
  let sl = List.concat_map (fun op -> unres (iter_slices old nw op)) ops in
  "slices="
  ^ join ","
      (List.map
         (fun (t, s) -> Printf.sprintf "%s:%s" (Core_cases.fmt_ctag t) (String.concat "." (List.map string_of_int s)))
         sl)

(* uw=<hexline>~s:e.s:e;<hexline>~... : replayed unicode-word boundaries per line *)
let parse_uw (s : string) : (string, (nat * nat) list) Hashtbl.t =
  let t = Hashtbl.create 16 in
  if s <> "-" then
    List.iter
      (fun ent ->
        match String.split_on_char '~' ent with
        | [ l; b ] ->
            let toks =
              if b = "" || b = "-" then []
              else
                List.map
                  (fun x ->
                    match String.split_on_char ':' x with
                    | [ a; c ] -> (ni (int_of_string a), ni (int_of_string c))
                    | _ -> failwith "uw bounds")
                  (String.split_on_char '.' b)
            in
            Hashtbl.replace t l toks
        | _ -> failwith "uw entry")
      (String.split_on_char ';' s);
  t

let case_inline h : string =
  let d = text_diff h "lines" false in
  let uw = parse_uw (get h "uw") in
  let words (line : n list) : (nat * nat) list =
    match Hashtbl.find_opt uw (hex line) with Some t -> t | None -> failwith ("no word oracle for line " ^ hex line)
  in
  let idl = match Hashtbl.find_opt h "idl" with Some s -> parse_opt s | None -> None in
  let probes = ref 0 in
  let per_op =
    List.map
      (fun op ->
        let chs = unres (inline_changes words (bytes_mode h) (deadline_of idl) !dbg false d.olds d.news op) in
        join ","
          (List.map
             (fun ch ->
               let vals = List.map (fun (e, v) -> Printf.sprintf "%d.%s" (if e then 1 else 0) (hex v)) ch.ic_vals in
               let missing =
                 match List.rev ch.ic_vals with
                 | (_, v) :: _ -> not (ends_with_newline v)
                 | [] -> false
               in
               Printf.sprintf "%s:%s:%s:%d:%s" (Core_cases.fmt_ctag ch.ic_tag) (Core_cases.fmt_opt ch.ic_old)
                 (Core_cases.fmt_opt ch.ic_new)
                 (if missing then 1 else 0)
                 (join ";" vals))
             chs))
      d.ops
  in
  ignore probes;
  Printf.sprintf "ops=%s inline=%s default_ok=1" (fmt_ops d.ops) (join "|" per_op)

let case_identify h : string =
  let old = parse_list (get h "old") and nw = parse_list (get h "new") in
  let os, oe = parse_range (get h "or") and ns, ne = parse_range (get h "nr") in
  let s = { olda = Array.of_list old; newa = Array.of_list nw; ko = 0; kn = 0 } in
  let orc = oracles_of s in
  let oids, nids = unres (identify_distinct orc.o_oo orc.o_nn orc.o_on (ni os) (ni oe) (ni ns) (ni ne)) in
  let f l = join "," (List.map (fun x -> string_of_int (i x)) l) in
  Printf.sprintf "oids=%s nids=%s or=%d:%d nr=%d:%d" (f oids) (f nids) os (os + List.length oids) ns (ns + List.length nids)

let case_repeat h : string =
  let alg = parse_alg (get h "alg") in
  let old = parse_list (get h "old") and nw = parse_list (get h "new") in
  let os, oe = parse_range (get h "or") and ns, ne = parse_range (get h "nr") in
  let s = { olda = Array.of_list old; newa = Array.of_list nw; ko = 0; kn = 0 } in
  let ops, _ = unres (capture_diff alg None !dbg false (oracles_of s) (ni os) (ni oe) (ni ns) (ni ne)) in
  Printf.sprintf "ops=%s all_same=1" (fmt_ops ops)

let run (comp : string) (h : (string, string) Hashtbl.t) : string =
  try
    match comp with
    | "tok" -> case_tok h
    | "utf8" -> case_utf8 h
    | "ws" -> case_ws h
    | "textdiff" -> case_textdiff h
    | "udiff" -> case_udiff h
    | "remap" -> case_remap h
    | "slices" -> case_slices h
    | "inline" -> case_inline h
    | "identify" -> case_identify h
    | "repeat" -> case_repeat h
    | "close" | "plumb" -> "ORACLE"
    | _ -> "UNKNOWN-COMPONENT " ^ comp
  with
  | RPanic -> "PANIC"
  | RFuel -> "OUTOFFUEL"
  | LossyOracle -> "ORACLE"
