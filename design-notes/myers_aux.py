import itertools
from myers_inv import dist_ext, max_d
# Lemma I: f(x+1,y+1) >= f(x,y) on the extended quadrant; Lipschitz: f(x,y) <= f(x,y+1)+1, f(x,y) <= f(x+1,y)+1
# Lemma P: for every c<=D... for each j<=D exists P in box with f(P)=j and g(P)=D-j
cnt=0
for K in (2,3):
  for n in range(0,6 if K==2 else 5):
    for m in range(0,6 if K==2 else 5):
      for a in itertools.product(range(K),repeat=n):
        for b in itertools.product(range(K),repeat=m):
          F=dist_ext(a,b); X=len(F); Y=len(F[0])
          for x in range(X-1):
            for y in range(Y-1):
              assert F[x+1][y+1]>=F[x][y]
              assert F[x][y]<=F[x][y+1]+1 and F[x][y]<=F[x+1][y]+1
              assert F[x+1][y]<=F[x][y]+1 and F[x][y+1]<=F[x][y]+1
          G=dist_ext(a[::-1],b[::-1])
          D=F[n][m]; assert G[n][m]==D
          for j in range(D+1):
            assert any(F[x][y]==j and G[n-x][m-y]==D-j for x in range(n+1) for y in range(m+1))
          # in-box: f+g >= D everywhere in box
          for x in range(n+1):
            for y in range(m+1):
              assert F[x][y]+G[n-x][m-y]>=D
          cnt+=1
print("ok",cnt)
