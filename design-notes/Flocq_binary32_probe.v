From Coq Require Import ZArith.
From Flocq Require Import Core.Core IEEE754.BinarySingleNaN IEEE754.Binary IEEE754.Bits.
Open Scope Z_scope.
Definition f32_of_Z (z:Z) : binary32 :=
  binary_normalize 24 128 (eq_refl _) (eq_refl _) mode_NE z 0 false.
Definition ratio (m n : Z) := b32_div mode_NE (b32_mult mode_NE (f32_of_Z 2) (f32_of_Z m)) (f32_of_Z n).
Eval vm_compute in (bits_of_b32 (ratio 3 7)).
Eval vm_compute in (b32_compare (ratio 3 7) (ratio 6 14)).
Eval vm_compute in (bits_of_b32 (b32_mult mode_NE (ratio 3 4) (f32_of_Z 4294967296))).
Print Assumptions Bdiv_correct.
