import itertools, random, sys
sys.setrecursionlimit(100000)
class St:
    def __init__(s,k): s.probes=0; s.k=k; s.cmp=0; s.cmp_after=0; s.expired=False
    def probe(s):
        r = s.k is not None and s.probes>=s.k
        s.probes+=1
        if r: s.expired=True
        return r
    def eq(s,x,y):
        s.cmp+=1
        if s.expired: s.cmp_after+=1
        return x==y
def max_d(n,m): return (n+m+1)//2+1
def cpl(st,a,b,os,oe,ns,ne):
    if oe<=os or ne<=ns: return 0
    c=0
    while os+c<oe and ns+c<ne and st.eq(b[ns+c],a[os+c]): c+=1
    return c
def csl(st,a,b,os,oe,ns,ne):
    if oe<=os or ne<=ns: return 0
    c=0
    while oe-c>os and ne-c>ns and st.eq(b[ne-c-1],a[oe-c-1]): c+=1
    return c
def snake(st,a,b,os,oe,ns,ne,vf,vb):
    n=oe-os; m=ne-ns; delta=n-m; odd=(delta&1)==1
    vf[1]=0; vb[1]=0
    for d in range(max_d(n,m)):
        if st.probe(): break
        for k in range(d,-d-1,-2):
            if k==-d or (k!=d and vf[k-1]<vf[k+1]): x=vf[k+1]
            else: x=vf[k-1]+1
            y=x-k; x0,y0=x,y
            if x<n and y<m: x+=cpl(st,a,b,os+x,oe,ns+y,ne)
            vf[k]=x
            if odd and abs(k-delta)<=d-1 and vf[k]+vb[-(k-delta)]>=n: return (x0+os,y0+ns)
        for k in range(d,-d-1,-2):
            if k==-d or (k!=d and vb[k-1]<vb[k+1]): x=vb[k+1]
            else: x=vb[k-1]+1
            y=x-k
            if x<n and y<m:
                adv=csl(st,a,b,os,os+n-x,ns,ns+m-y); x+=adv; y+=adv
            vb[k]=x
            if (not odd) and abs(k-delta)<=d and vb[k]+vf[-(k-delta)]>=n: return (n-x+os,m-y+ns)
    return None
def conquer(st,a,b,os,oe,ns,ne,vf,vb,out):
    p=cpl(st,a,b,os,oe,ns,ne)
    if p>0: out.append(('=',os,ns,p))
    os+=p; ns+=p
    s=csl(st,a,b,os,oe,ns,ne); suf=(oe-s,ne-s); oe-=s; ne-=s
    if oe<=os and ne<=ns: pass
    elif ne<=ns: out.append(('-',os,oe-os,ns))
    elif oe<=os: out.append(('+',os,ns,ne-ns))
    else:
        r=snake(st,a,b,os,oe,ns,ne,vf,vb)
        if r:
            x,y=r
            conquer(st,a,b,os,x,ns,y,vf,vb,out); conquer(st,a,b,x,oe,y,ne,vf,vb,out)
        else:
            out.append(('-',os,oe-os,ns)); out.append(('+',os,ns,ne-ns))
    if s>0: out.append(('=',suf[0],suf[1],s))
def run(a,b,k):
    st=St(k); out=[]; conquer(st,a,b,0,len(a),0,len(b),{},{},out); return st,out
if __name__=="__main__":
    worst=(0,None)
    rnd=random.Random(1)
    cases=[]
    for K in (2,3):
        for n in range(0,6):
            for m in range(0,6):
                for a in itertools.product(range(K),repeat=n):
                    for b in itertools.product(range(K),repeat=m): cases.append((a,b))
    for _ in range(3000):
        n=rnd.randint(0,60); m=rnd.randint(0,60); K=rnd.choice([2,3,8,50])
        a=tuple(rnd.randrange(K) for _ in range(n))
        if rnd.random()<0.5:
            b=list(a)
            for _ in range(rnd.randint(0,8)):
                if b and rnd.random()<0.5: del b[rnd.randrange(len(b))]
                else: b.insert(rnd.randint(0,len(b)),rnd.randrange(K))
            b=tuple(b)
        else: b=tuple(rnd.randrange(K) for _ in range(m))
        cases.append((a,b))
    tot=0
    for a,b in cases:
        st0,_=run(a,b,None)
        for k in range(st0.probes+1):
            st,out=run(a,b,k); tot+=1
            N=len(a)+len(b)
            r=st.cmp_after/(N+1)
            if r>worst[0]: worst=(r,(a,b,k,st.cmp_after,N))
    print("runs",tot,"worst ratio",worst)
