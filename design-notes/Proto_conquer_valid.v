From Coq Require Import List Arith ZArith Lia Bool.
Import ListNotations.

Section Core.
Variable A : Type.
Variable eqb : A -> A -> bool.

(* An Index implementation: None = out-of-bounds panic *)
Definition lookup := nat -> option A.

Inductive call :=
| CEq (o n len : nat)
| CDel (o olen n : nat)
| CIns (o n nlen : nat)
| CRep (o olen n nlen : nat)
| CFin.

(* element-wise equality of old[o..o+len) and new[n..n+len) ; None if OOB *)
Fixpoint seg_eq (old new : lookup) (o n len : nat) : option bool :=
  match len with
  | 0 => Some true
  | S l => match new n, old o with
           | Some y, Some x => if eqb y x then seg_eq old new (S o) (S n) l else Some false
           | _, _ => None
           end
  end.

(* common_prefix_len over ranges [os,oe) [ns,ne): counts with fuel = min len *)
Fixpoint cpl (old new : lookup) (o n k : nat) : option nat :=
  match k with
  | 0 => Some 0
  | S k' => match new n, old o with
            | Some y, Some x => if eqb y x then option_map S (cpl old new (S o) (S n) k') else Some 0
            | _, _ => None
            end
  end.
Definition common_prefix_len old new os oe ns ne : option nat :=
  if (oe <=? os) || (ne <=? ns) then Some 0 else cpl old new os ns (Nat.min (oe - os) (ne - ns)).

(* strict validity walk of a raw call list from cursor (i,j) to (oe,ne) *)
Inductive Walk (old new : lookup) (oe ne : nat) : nat -> nat -> list call -> Prop :=
| W_nil : Walk old new oe ne oe ne []
| W_eq i j len cs : 0 < len -> i + len <= oe -> j + len <= ne ->
    seg_eq old new i j len = Some true ->
    Walk old new oe ne (i+len) (j+len) cs -> Walk old new oe ne i j (CEq i j len :: cs)
| W_del i j len cs j' : 0 < len -> i + len <= oe ->
    Walk old new oe ne (i+len) j cs -> Walk old new oe ne i j (CDel i len j' :: cs)
| W_ins i j len cs i' : 0 < len -> j + len <= ne ->
    Walk old new oe ne i (j+len) cs -> Walk old new oe ne i j (CIns i' j len :: cs).

Lemma Walk_app old new oe ne i j cs cs' oe' ne' :
  Walk old new oe ne i j cs -> Walk old new oe' ne' oe ne cs' -> oe <= oe' -> ne <= ne' ->
  Walk old new oe' ne' i j (cs ++ cs').
Proof.
  intros HW; induction HW; intros HW2 Ho Hn; simpl; auto.
  - constructor; auto; lia.
  - constructor; auto; lia.
  - constructor; auto; lia.
Qed.

(* ---- Myers conquer, parametric in the snake oracle ---- *)
Variable snake : nat -> nat -> nat -> nat -> option (option (nat * nat)).
  (* outer None = panic; inner None = deadline reached *)

Fixpoint csl (old new : lookup) (oe ne k : nat) : option nat :=
  match k with
  | 0 => Some 0
  | S k' => match new (ne - 1), old (oe - 1) with
            | Some y, Some x => if eqb y x then option_map S (csl old new (oe-1) (ne-1) k') else Some 0
            | _, _ => None
            end
  end.
Definition common_suffix_len old new os oe ns ne : option nat :=
  if (oe <=? os) || (ne <=? ns) then Some 0 else csl old new oe ne (Nat.min (oe - os) (ne - ns)).

Definition bind {X Y} (m : option X) (f : X -> option Y) := match m with Some x => f x | None => None end.
Notation "'do' x <- m ; f" := (bind m (fun x => f)) (at level 200, x name, m at level 100, f at level 200).

Fixpoint conquer (fuel : nat) (old new : lookup) (os oe ns ne : nat) : option (list call) :=
  match fuel with 0 => None | S fuel =>
  do p <- common_prefix_len old new os oe ns ne;
  let pre := if 0 <? p then [CEq os ns p] else [] in
  let os := os + p in let ns := ns + p in
  do s <- common_suffix_len old new os oe ns ne;
  let oe := oe - s in let ne := ne - s in
  let suf := if 0 <? s then [CEq oe ne s] else [] in
  do mid <-
    (if (oe <=? os) && (ne <=? ns) then Some []
     else if (ne <=? ns) then Some [CDel os (oe - os) ns]
     else if (oe <=? os) then Some [CIns os ns (ne - ns)]
     else do r <- snake os oe ns ne;
          match r with
          | Some (x, y) =>
              do a <- conquer fuel old new os x ns y;
              do b <- conquer fuel old new x oe y ne;
              Some (a ++ b)
          | None => Some [CDel os (oe - os) ns; CIns os ns (ne - ns)]
          end);
  Some (pre ++ mid ++ suf)
  end.

Lemma cpl_spec old new k : forall o n p, cpl old new o n k = Some p ->
  p <= k /\ seg_eq old new o n p = Some true.
Proof.
  induction k as [|k IH]; simpl; intros o n p H.
  - inversion H; subst; simpl; auto.
  - destruct (new n) as [y|] eqn:En; [|discriminate].
    destruct (old o) as [x|] eqn:Eo; [|discriminate].
    destruct (eqb y x) eqn:E.
    + destruct (cpl old new (S o) (S n) k) as [q|] eqn:Eq; simpl in H; [|discriminate].
      inversion H; subst. destruct (IH _ _ _ Eq) as [Hle Hs]. split; [lia|].
      simpl. rewrite En, Eo, E. exact Hs.
    + inversion H; subst; simpl; split; [lia|auto].
Qed.

Lemma seg_eq_snoc old new len : forall o n, seg_eq old new o n len = Some true ->
  forall x y, new (n+len) = Some y -> old (o+len) = Some x -> eqb y x = true ->
  seg_eq old new o n (S len) = Some true.
Proof.
  induction len as [|l IH]; intros o n H x y Hn Ho E.
  - simpl. rewrite Nat.add_0_r in *. rewrite Hn, Ho, E. reflexivity.
  - simpl in H. destruct (new n) as [y0|] eqn:En; [|discriminate].
    destruct (old o) as [x0|] eqn:Eo; [|discriminate].
    destruct (eqb y0 x0) eqn:E0; [|discriminate].
    change (seg_eq old new o n (S (S l))) with
      (match new n, old o with Some y, Some x => if eqb y x then seg_eq old new (S o) (S n) (S l) else Some false | _,_ => None end).
    rewrite En, Eo, E0. apply IH with (x:=x) (y:=y); auto.
    + replace (S n + l) with (n + S l) by lia; auto.
    + replace (S o + l) with (o + S l) by lia; auto.
Qed.

Lemma csl_spec old new k : forall oe ne s, csl old new oe ne k = Some s -> k <= oe -> k <= ne ->
  s <= k /\ seg_eq old new (oe - s) (ne - s) s = Some true.
Proof.
  induction k as [|k IH]; simpl; intros oe ne s H Ho Hn.
  - inversion H; subst; simpl; auto.
  - destruct (new (ne-1)) as [y|] eqn:En; [|discriminate].
    destruct (old (oe-1)) as [x|] eqn:Eo; [|discriminate].
    destruct (eqb y x) eqn:E.
    + destruct (csl old new (oe-1) (ne-1) k) as [q|] eqn:Eq; simpl in H; [|discriminate].
      inversion H; subst. destruct (IH _ _ _ Eq) as [Hle Hs]; [lia|lia|]. split; [lia|].
      replace (oe - S q) with (oe - 1 - q) by lia. replace (ne - S q) with (ne - 1 - q) by lia.
      apply seg_eq_snoc with (x:=x) (y:=y); auto.
      * replace (ne - 1 - q + q) with (ne - 1) by lia; auto.
      * replace (oe - 1 - q + q) with (oe - 1) by lia; auto.
    + inversion H; subst; simpl; split; [lia|auto].
Qed.

Definition snake_in_box := forall os oe ns ne x y, snake os oe ns ne = Some (Some (x,y)) ->
  os <= x <= oe /\ ns <= y <= ne.

Theorem conquer_valid (Hs : snake_in_box) old new fuel : forall os oe ns ne cs,
  os <= oe -> ns <= ne ->
  conquer fuel old new os oe ns ne = Some cs -> Walk old new oe ne os ns cs.
Proof.
  induction fuel as [|fuel IH]; intros os oe ns ne cs Ho Hn H; [discriminate|].
  cbn [conquer] in H.
  destruct (common_prefix_len old new os oe ns ne) as [p|] eqn:Ep; [|discriminate]. cbn [bind] in H.
  destruct (common_suffix_len old new (os+p) oe (ns+p) ne) as [s|] eqn:Es; [|discriminate]. cbn [bind] in H.
  assert (Hp : os + p <= oe /\ ns + p <= ne /\ seg_eq old new os ns p = Some true).
  { unfold common_prefix_len in Ep. destruct ((oe <=? os) || (ne <=? ns)) eqn:Eb.
    - inversion Ep; subst. cbn [seg_eq]. repeat split; auto; lia.
    - apply orb_false_iff in Eb as [E1 E2]. apply Nat.leb_gt in E1, E2.
      apply cpl_spec in Ep as [Hle Hseg]. repeat split; auto; lia. }
  destruct Hp as (Hpo & Hpn & Hpseg).
  assert (Hsf : os + p <= oe - s /\ ns + p <= ne - s /\ s <= oe /\ s <= ne /\ seg_eq old new (oe-s) (ne-s) s = Some true).
  { unfold common_suffix_len in Es. destruct ((oe <=? os+p) || (ne <=? ns+p)) eqn:Eb.
    - inversion Es; subst. cbn [seg_eq]. repeat split; auto; lia.
    - apply orb_false_iff in Eb as [E1 E2]. apply Nat.leb_gt in E1, E2.
      apply csl_spec in Es as [Hle Hseg]; try lia. repeat split; auto; lia. }
  destruct Hsf as (Hso & Hsn & Hs1 & Hs2 & Hsseg).
  match type of H with bind ?m _ = _ => destruct m as [mid|] eqn:Em; [|discriminate] end. cbn [bind] in H.
  inversion H; subst cs; clear H.
  assert (Hmid : Walk old new (oe - s) (ne - s) (os + p) (ns + p) mid).
  { destruct ((oe - s <=? os + p) && (ne - s <=? ns + p)) eqn:E1.
    - apply andb_true_iff in E1 as [Ea Eb]. apply Nat.leb_le in Ea, Eb. inversion Em; subst.
      replace (oe - s) with (os + p) by lia. replace (ne - s) with (ns + p) by lia. constructor.
    - destruct (ne - s <=? ns + p) eqn:E2.
      + apply Nat.leb_le in E2. inversion Em; subst.
        assert (oe - s > os + p). { rewrite andb_true_r in E1. apply Nat.leb_gt in E1; lia. }
        replace (ne - s) with (ns + p) by lia.
        apply W_del; try lia. replace (os + p + (oe - s - (os + p))) with (oe - s) by lia. constructor.
      + apply Nat.leb_gt in E2. destruct (oe - s <=? os + p) eqn:E3.
        * apply Nat.leb_le in E3. inversion Em; subst. replace (oe - s) with (os + p) by lia.
          apply W_ins; try lia. replace (ns + p + (ne - s - (ns + p))) with (ne - s) by lia. constructor.
        * apply Nat.leb_gt in E3.
          destruct (snake (os+p) (oe-s) (ns+p) (ne-s)) as [[[x y]|]|] eqn:Esn; cbn [bind] in Em; [| |discriminate].
          -- destruct (Hs _ _ _ _ _ _ Esn) as [Hx Hy].
             destruct (conquer fuel old new (os+p) x (ns+p) y) as [a|] eqn:Ea; [|discriminate]. cbn [bind] in Em.
             destruct (conquer fuel old new x (oe-s) y (ne-s)) as [b|] eqn:Eb; [|discriminate]. cbn [bind] in Em.
             inversion Em; subst.
             assert (Wa : Walk old new x y (os+p) (ns+p) a) by (apply IH; auto; lia).
             assert (Wb : Walk old new (oe-s) (ne-s) x y b) by (apply IH; auto; lia).
             eapply Walk_app; eauto; lia.
          -- inversion Em; subst. apply W_del; try lia.
             replace (os + p + (oe - s - (os + p))) with (oe - s) by lia.
             apply W_ins; try lia. replace (ns + p + (ne - s - (ns + p))) with (ne - s) by lia. constructor. }
  assert (Hpre : Walk old new (os+p) (ns+p) os ns (if 0 <? p then [CEq os ns p] else [])).
  { destruct (0 <? p) eqn:E; [apply Nat.ltb_lt in E | apply Nat.ltb_ge in E].
    - apply W_eq; auto; try lia. constructor.
    - replace p with 0 by lia. rewrite !Nat.add_0_r. constructor. }
  assert (Hsuf : Walk old new oe ne (oe-s) (ne-s) (if 0 <? s then [CEq (oe-s) (ne-s) s] else [])).
  { destruct (0 <? s) eqn:E; [apply Nat.ltb_lt in E | apply Nat.ltb_ge in E].
    - apply W_eq; auto; try lia. replace (oe - s + s) with oe by lia. replace (ne - s + s) with ne by lia. constructor.
    - replace s with 0 by lia. rewrite !Nat.sub_0_r. constructor. }
  eapply Walk_app; [exact Hpre| |lia|lia].
  eapply Walk_app; [exact Hmid|exact Hsuf|lia|lia].
Qed.
End Core.
