import itertools, sys
# op = [tag, old_index, old_len, new_index, new_len]; tags 'E','D','I'
def E(o,n,l): return ['E',o,l,n,l]
def D(o,l,n): return ['D',o,l,n,0]
def I(o,n,l): return ['I',o,0,n,l]
def orange(op): return (op[1],op[1]+op[2])
def nrange(op): return (op[3],op[3]+op[4])
def is_empty(op): return op[2]==0 and op[4]==0
def adjust(op,off,offneg,ln,lnneg):
    def mod(v,a,neg):
        r = v-a if neg else v+a
        assert r>=0,"underflow"
        return r
    op[1]=mod(op[1],off,offneg); op[3]=mod(op[3],off,offneg)
    if op[0]=='E': op[2]=mod(op[2],ln,lnneg); op[4]=op[2]
    elif op[0]=='D': op[2]=mod(op[2],ln,lnneg)
    else: op[4]=mod(op[4],ln,lnneg)
def shift_left(op,a): adjust(op,a,True,0,False)
def shift_right(op,a): adjust(op,a,False,0,False)
def grow_left(op,a): adjust(op,a,True,a,False)
def grow_right(op,a): adjust(op,0,False,a,False)
def shrink_left(op,a): adjust(op,0,False,a,True)
def shrink_right(op,a): adjust(op,a,False,a,True)
def cpl(old,new,orr,nrr):
    if orr[1]<=orr[0] or nrr[1]<=nrr[0]: return 0
    c=0
    while orr[0]+c<orr[1] and nrr[0]+c<nrr[1] and new[nrr[0]+c]==old[orr[0]+c]: c+=1
    return c
def csl(old,new,orr,nrr):
    if orr[1]<=orr[0] or nrr[1]<=nrr[0]: return 0
    c=0
    while orr[1]-c>orr[0] and nrr[1]-c>nrr[0] and new[nrr[1]-c-1]==old[orr[1]-c-1]: c+=1
    return c
class Stats: pass
def shift_up(ops,old,new,p,tr):
    while p>=1:
        prev=list(ops[p-1]); this=list(ops[p]); t=(this[0],prev[0])
        if t==('I','E') or t==('D','E'):
            s=csl(old,new,orange(prev),nrange(this))
            if s>0:
                if p+1<len(ops) and ops[p+1][0]=='E': grow_left(ops[p+1],s)
                else:
                    if t[0]=='I': ops.insert(p+1,E(orange(prev)[1]-s,nrange(this)[1]-s,s))
                    else: ops.insert(p+1,E(orange(prev)[1]-s,nrange(this)[1]-s,(orange(prev)[1]-orange(prev)[0])-s))
                shift_left(ops[p],s); shrink_left(ops[p-1],s)
                tr.append('slideup')
                if is_empty(ops[p-1]): del ops[p-1]; p-=1
            elif is_empty(ops[p-1]): del ops[p-1]; p-=1; tr.append('rmup')
            else: break
        elif t in (('I','D'),('D','I')):
            ops[p-1],ops[p]=ops[p],ops[p-1]; p-=1; tr.append('swapup')
        elif t==('I','I'):
            grow_right(ops[p-1],this[4]); del ops[p]; p-=1; tr.append('merge')
        elif t==('D','D'):
            grow_right(ops[p-1],this[2]); del ops[p]; p-=1; tr.append('merge')
        else: raise Exception("unreachable")
    return p
def shift_down(ops,old,new,p,tr):
    while p+1<len(ops):
        nxt=list(ops[p+1]); this=list(ops[p]); t=(this[0],nxt[0])
        if t==('I','E') or t==('D','E'):
            pl=cpl(old,new,orange(nxt),nrange(this))
            if pl>0:
                if p>=1 and ops[p-1][0]=='E': grow_right(ops[p-1],pl)
                else:
                    ops.insert(p,E(orange(nxt)[0],nrange(this)[0],pl)); p+=1
                shift_right(ops[p],pl); shrink_right(ops[p+1],pl)
                tr.append('slidedown')
                if is_empty(ops[p+1]): del ops[p+1]
            elif is_empty(ops[p+1]): del ops[p+1]; tr.append('rmdown')
            else: break
        elif t in (('I','D'),('D','I')):
            ops[p],ops[p+1]=ops[p+1],ops[p]; p+=1; tr.append('swapdown')
        elif t==('I','I'):
            grow_right(ops[p],nxt[4]); del ops[p+1]; tr.append('merge')
        elif t==('D','D'):
            grow_right(ops[p],nxt[2]); del ops[p+1]; tr.append('merge')
        else: raise Exception("unreachable")
    return p
def nonEq(ops): return sum(1 for o in ops if o[0]!='E')
def latest_ok(ops,old,new,upto):
    for i in range(min(upto,len(ops)-1)):
        if ops[i][0]=='I' and ops[i+1][0]=='E' and (i==0 or ops[i-1][0]!='D'):
            if new[ops[i][3]]==old[ops[i+1][1]]: return False
    return True
def cleanup(old,new,ops,stats):
    for tag in ('D','I'):
        p=0
        while p<len(ops):
            if ops[p][0]==tag:
                m0=(nonEq(ops),len(ops)-p); tr=[]
                p=shift_up(ops,old,new,p,tr); p=shift_down(ops,old,new,p,tr)
                m1=(nonEq(ops),len(ops)-p)
                stats.iters+=1
                if not (m1<=m0): stats.measure_viol+=1; stats.ex.setdefault('measure',(old,new,m0,m1,tr))
                if 'merge' not in tr and m1[1]>m0[1]: stats.nomerge_viol+=1; stats.ex.setdefault('nomerge',(old,new,m0,m1,tr))
                if tag=='I' and not latest_ok(ops,old,new,p+1): stats.latest_viol+=1; stats.ex.setdefault('latest',(old,new,[list(o) for o in ops],p))
            p+=1
    return ops
def scripts(a,b,i,j,cur,out):
    if i==len(a) and j==len(b): out.append([list(o) for o in cur]); return
    for l in range(1,min(len(a)-i,len(b)-j)+1):
        if all(a[i+k]==b[j+k] for k in range(l)):
            cur.append(E(i,j,l)); scripts(a,b,i+l,j+l,cur,out); cur.pop()
        else: break
    for l in range(1,len(a)-i+1): cur.append(D(i,l,j)); scripts(a,b,i+l,j,cur,out); cur.pop()
    for l in range(1,len(b)-j+1): cur.append(I(i,j,l)); scripts(a,b,i,j+l,cur,out); cur.pop()
if __name__=="__main__":
    st=Stats(); st.iters=0; st.measure_viol=0; st.nomerge_viol=0; st.latest_viol=0; st.ex={}
    tot=0
    dump=open('compact_py.out','w') if len(sys.argv)>1 else None
    for K,L in ((2,4),(3,3)):
        for n in range(L+1):
            for m in range(L+1):
                for a in itertools.product(range(K),repeat=n):
                    for b in itertools.product(range(K),repeat=m):
                        out=[]; scripts(a,b,0,0,[],out)
                        for s in out:
                            src=[list(o) for o in s]
                            r=cleanup(a,b,s,st); tot+=1
                            if dump: dump.write("%s|%s|%s|%s\n"%(a,b,src,r))
    print("scripts",tot,"iters",st.iters,"measure_viol",st.measure_viol,"nomerge_viol",st.nomerge_viol,"latest_viol",st.latest_viol)
    for k,v in st.ex.items(): print(k,v)
