import itertools, sys
from functools import lru_cache

def max_d(n,m): return (n+m+1)//2+1

def cpl(a,b,x,y):
    c=0
    while x+c<len(a) and y+c<len(b) and a[x+c]==b[y+c]: c+=1
    return c
def csl(a,b,xe,ye):  # common suffix of a[0:xe], b[0:ye]
    c=0
    while xe-c>0 and ye-c>0 and a[xe-c-1]==b[ye-c-1]: c+=1
    return c

def dist_ext(a,b):
    """cost from (0,0) in extended forward graph; returns dict (x,y)->cost for x<=n+B,y<=m+B"""
    n,m=len(a),len(b); B=n+m+3
    INF=10**9
    D=[[INF]*(m+B+1) for _ in range(n+B+1)]
    D[0][0]=0
    for x in range(n+B+1):
        for y in range(m+B+1):
            d=D[x][y]
            if d==INF: continue
            if x+1<=n+B: D[x+1][y]=min(D[x+1][y],d+1)
            if y+1<=m+B: D[x][y+1]=min(D[x][y+1],d+1)
            if x<n and y<m and a[x]==b[y]: D[x+1][y+1]=min(D[x+1][y+1],d)
    return D

def snake_sim(a,b,check_inv=True):
    n,m=len(a),len(b); delta=n-m; odd=(delta&1)==1
    vf={1:0}; vb={1:0}
    dm=max_d(n,m)
    if check_inv:
        Df=dist_ext(a,b); Db=dist_ext(a[::-1],b[::-1])
        def FR(D,d,k):
            best=None
            for x in range(len(D)):
                y=x-k
                if 0<=y<len(D[0]) and D[x][y]<=d: best=x
            return best
    for d in range(dm):
        for k in range(d,-d-1,-2):
            if k==-d or (k!=d and vf[k-1]<vf[k+1]): x=vf[k+1]
            else: x=vf[k-1]+1
            y=x-k; assert y>=0
            x0,y0=x,y
            if x<n and y<m: x+=cpl(a,b,x,y)
            vf[k]=x
            if check_inv: assert FR(Df,d,k)==x,("fwd inv",a,b,d,k,x,FR(Df,d,k))
            if odd and abs(k-delta)<=d-1:
                if vf[k]+vb[-(k-delta)]>=n: return (x0,y0,d,'f')
        for k in range(d,-d-1,-2):
            if k==-d or (k!=d and vb[k-1]<vb[k+1]): x=vb[k+1]
            else: x=vb[k-1]+1
            y=x-k; assert y>=0
            if x<n and y<m:
                adv=csl(a,b,n-x,m-y); x+=adv; y+=adv
            vb[k]=x
            if check_inv: assert FR(Db,d,k)==x,("bwd inv",a,b,d,k,x)
            if (not odd) and abs(k-delta)<=d:
                if vb[k]+vf[-(k-delta)]>=n: return (n-x,m-y,d,'b')
    return None

@lru_cache(None)
def ed(a,b):
    n,m=len(a),len(b)
    T=[[0]*(m+1) for _ in range(n+1)]
    for i in range(n-1,-1,-1):
        for j in range(m-1,-1,-1):
            T[i][j]=T[i+1][j+1]+1 if a[i]==b[j] else max(T[i+1][j],T[i][j+1])
    return n+m-2*T[0][0]

cnt=0
for K in (2,3):
  for n in range(1,7 if K==2 else 6):
    for m in range(1,7 if K==2 else 6):
      for a in itertools.product(range(K),repeat=n):
        for b in itertools.product(range(K),repeat=m):
          if a[0]==b[0] or a[-1]==b[-1]: continue   # stripped boxes only
          r=snake_sim(a,b)
          assert r is not None
          x,y,d,w=r
          D=ed(a,b)
          assert 0<=x<=n and 0<=y<=m,("inbox",a,b,r)
          assert (x,y)!=(0,0) and (x,y)!=(n,m),("progress",a,b,r)
          assert ed(a[:x],b[:y])+ed(a[x:],b[y:])==D,("additive",a,b,r)
          assert d==(D+1)//2,("round",a,b,r,D)
          assert (w=='f')==(D%2==1)
          cnt+=1
print("ok",cnt)
