#!/bin/sh
# usage: tools/seed_eval.sh <seed-dir> <prop> [<prop>...]
# applies seeded/<name>/patch.diff to /repo, runs the quick checks, reverts.
set -u
d="$1"; shift
cd /verif
git -C /repo diff --quiet || { echo "/repo has local changes"; exit 2; }
git -C /repo apply "/verif/$d/patch.diff" || { echo "patch does not apply"; exit 2; }
for p in "$@"; do
  echo "== $p on $d"
  timeout 1500 python3 tools/check.py "$p" --tier quick 2>&1 | grep -E "VIOLATION|KNOWN-FINDING|Error|error" | cut -c1-400
  echo "exit: $?"
  for f in replays/$p-*.json; do [ -f "$f" ] && { echo "--- $f"; head -c 900 "$f"; echo; }; done
done
git -C /repo checkout -- .
rm -f replays/*.json
