#!/bin/sh
# usage: tools/seed_confirm.sh <seed-dir>
# Confirms in a scratch worktree: existing tests pass with the patch, the demo
# fails with the patch and passes without it.  Removes the worktree afterwards.
d="$(cd "$1" && pwd)"
W=/var/tmp/seedchk-$$
export CARGO_TARGET_DIR=/var/tmp/seedchk-target CARGO_NET_OFFLINE=true
git -C /repo worktree add -q "$W" HEAD || exit 2
cd "$W"
git apply "$d/patch.diff" || { echo "PATCH-DOES-NOT-APPLY"; cd /; git -C /repo worktree remove --force "$W"; exit 2; }
t1=$(cargo test --offline 2>&1 | grep "^test result" | head -2 | tr '\n' ' ')
t2=$(cargo test --offline --features "bytes unicode inline" 2>&1 | grep "^test result" | head -2 | tr '\n' ' ')
mkdir -p tests; cp "$d/demo.rs" tests/demo.rs
r1=$(cargo test --offline --features "bytes unicode inline" --test demo 2>&1 | grep "^test result" | tr '\n' ' ')
git apply -R "$d/patch.diff"
r2=$(cargo test --offline --features "bytes unicode inline" --test demo 2>&1 | grep "^test result" | tr '\n' ' ')
echo "existing(default): $t1"
echo "existing(features): $t2"
echo "demo WITH patch   : $r1"
echo "demo WITHOUT patch: $r2"
cd /; git -C /repo worktree remove --force "$W"
