"""Per-property check definitions: which components are generated, which
verified-checker clauses decide the property, which theorems are pinned."""
import gen
import check as C

ALGS = "MPL"

# axioms each property's theorems may depend on (exact names, checked every run)
AXIOMS = {
    "C04": ["FunctionalExtensionality.functional_extensionality_dep"],
    "C14": ["FunctionalExtensionality.functional_extensionality_dep"],
    "C20": ["FunctionalExtensionality.functional_extensionality_dep"],
}
# theorems with their own allowlist: the binary32 (Flocq) instance of C18 needs the standard library's real numbers
_REALS = ["ClassicalDedekindReals.sig_not_dec", "ClassicalDedekindReals.sig_forall_dec",
          "FunctionalExtensionality.functional_extensionality_dep", "Classical_Prop.classic"]
AXIOMS_THM = {t: _REALS for t in ("c18_ev32_mono", "c18_key32_mono", "c18_filters_sound_binary32",
                                  "c18_close_matches_binary32", "c18_driver_ratio_eq", "c18_double_rounding_div")}
# theorem names that must be present in Props/Cxx.v
PINNED = {
    "C01": ["c01_myers_valid", "c01_myers_no_panic", "c01_snake_spec", "c01_lcs_valid", "c01_lcs_no_panic", "c01_patience_valid", "c01_patience_no_panic", "c01_strong_implies_spec", "c01_raw_replay", "c01_checker_reflects", "c01_raw_shift", "c01_raw_shift_slices", "c01_capture_shift"],
    "C02": ["c02_capture_valid", "c02_capture_no_panic", "c02_capture_apply", "c02_identical_only_equal", "c02_ratio", "c02_checker_reflects", "c02_identical_only_equal_all", "c02_patience_identical_items", "c02_capture_dbg_independent_all", "c02_capture_valid_all", "c02_capture_no_panic_all", "c02_capture_apply_all", "c02_ratio_patience"],
    "C03": ["c03_myers_minimal", "c03_lcs_minimal", "c03_cost_lower_bound", "c03_lcs_len_correct"],
    "C04": ["c04_text_reconstruct", "c04_change_index_shape", "c04_items_reconstruct", "c04_textdiff_reconstruct_partition", "c04_textdiff_reconstruct", "c04_capture_valid_patience", "c04_capture_valid_all", "c04_capture_exact_repaired_patience", "c04_capture_no_panic_patience", "c04_capture_diff_eq_patience", "c04_patience_raw"],
    "C05": ["c05_bytes_eqb_iff", "c05_udiff_render_eq_print_gen", "c05_udiff_render_eq_print", "c05_udiff_applies", "c05_udiff_applies_strict", "c05_udiff_render_applies", "c05_udiff_empty_iff_no_change", "c05_udiff_empty_equal", "c05_udiff_empty_iff_equal", "c05_udiff_header_once", "c05_marker_exactly", "c05_marker_exactly_body", "c05_ends_with_newline_spec", "c05_writer_bytes", "c05_lossy_app_sep", "c05_lossy_ascii", "c05_display_eq_lossy_writer", "c05_parse_sound", "c05_parse_check_meaning", "c05_parse_print", "c05_parse_print_nohint", "c05_text_render_parse_applies", "c05_render_parse_applies_nohint"],
    "C06": ["c06_Chars_unfold", "c06_decode_partition", "c06_decode_valid_len", "c06_decode_newline_char", "c06_decode_newline_byte", "c06_tok_bytes_ok", "c06_tok_str_ok", "c06_tok_str_bytes_agree", "c06_tokenize_lines_str_bytes", "c06_check_partition_lossless", "c06_tokenize_bytes_lossless", "c06_tokenize_str_lossless", "c06_line_shape_sound", "c06_check_chars_shape_iff"],
    "C07": ["c07_myers_valid_any_clock", "c07_myers_completes_any_clock", "c07_lcs_valid_any_clock", "c07_lcs_completes_any_clock", "c07_snake_none_only_by_deadline", "c07_alg_parametric", "c07_never_expire_raw", "c07_never_expire_capture", "c07_never_expire_textdiff", "c07_never_expire_ctr", "c07_none_no_probe", "c07_post_expiry_bound", "c07_post_bound_values", "c07_post_expiry_bound_any_alg", "c07_clock_at_mono"],
    "C08": ["c08_myers_finish_last", "c08_lcs_finish_last", "c08_replace_acts_by_emitting", "c08_replace_inner_failure", "c08_compact_hook", "c08_no_finish_forwards", "c08_no_finish_body", "c08_default_replace", "c08_default_replace_trace", "c08_compact_hook_events", "c08_replace_over_compact"],
    "C09": ["c09_capture_alternating", "c09_replace_alternates", "c09_checker_reflects", "c09_capture_normal_form", "c09_capture_insert_latest", "c09_compact_replace_normal_form", "c09_needs_nonempty"],
    "C10": ["c10_compact_preserves", "c10_compact_terminates", "c10_compact_total", "c10_compact_hook", "c10_delete_never_slides_up", "c10_replace_exact", "c10_compact_exact_repaired", "c10_replace_finish_resets", "c10_replace_twice_same"],
    "C11": ["c11_exact_repaired", "c11_exact_outside_known_class", "c11_replace_exact", "c11_compact_exact_repaired", "c11_checker_reflects", "c11_refuted"],
    "C12": ["c12_eq_ref", "c12_eq_ref_sep", "c12_alternating_sep", "c12_G0", "c12_G1", "c12_G2", "c12_G5", "c12_G6", "c12_G6_count", "c12_G4", "c12_G4_unique", "c12_G4_first_eq", "c12_G4_first_chg", "c12_G4_last_eq", "c12_G4_last_chg", "c12_check_groups", "c12_model_spec", "c12_model_check"],
    "C13": ["c13_iter_changes_spec", "c13_all_changes_concat", "c13_expand_op_shape", "c13_iter_slices_spec", "c13_iter_slices_total", "c13_apply_capture_id"],
    "C14": ["c14_identify_ok", "c14_identify_iff_eq", "c14_identify_ranges", "c14_offset_lookup_some", "c14_identify_oracles_in_range", "c14_identify_oracles_pointwise", "c14_bytes_eqb_spec", "c14_textdiff_eq_tokens_diff", "c14_textdiff_eq_tokens_diff_gen", "c14_textdiff_small_branch", "c14_newline_flag_spec"],
    "C15": ["c15_unique_spec", "c15_unique_sorted", "c15_patience_anchors", "c15_lcs_len_correct"],
    "C16": ["c16_inline_not_replace", "c16_inline_not_replace_no_emph", "c16_multi_seqs_spec", "c16_orig_slices_spec", "c16_orig_slices_descr", "c16_lnl_token_clean", "c16_inline_replace_spec", "c16_inline_post_pointwise", "c16_inline_replace_spec_all", "c16_inline_replace_bytes", "c16_inline_replace_total"],
    "C17": ["c17_bytes_eqb_spec", "c17_remap_indexes_eq", "c17_remap_slice_spec", "c17_remap_slice_iter", "c17_remap_slice_empty_panics", "c17_remap_slice_empty_inside", "c17_remap_ops_reconstruct", "c17_remap_op_iter_slices"],
    "C18": ["c18_filters_sound", "c18_ratio_le_filters", "c18_exhaustive_ranking", "c18_ranking_exists", "c18_sorted_spec", "c18_any_heap", "c18_ranking_by_ratio", "c18_filters_sound_gen", "c18_exhaustive_ranking_gen", "c18_textdiff_ratio", "c18_ratio_values", "c18_instance_Q", "c18_ev32_mono", "c18_key32_mono", "c18_filters_sound_binary32", "c18_close_matches_binary32", "c18_driver_ratio_eq", "c18_double_rounding_div"],
    "C19": ["c19_count_world", "c19_prefix_scan_cost", "c19_suffix_scan_cost", "c19_fwd_step_cost", "c19_bwd_step_cost", "c19_rounds_telescope", "c19_snake_round_cost", "c19_snake_cost", "c19_snake_halves", "c19_myers_work_any_world", "c19_myers_work_bound", "c19_myers_work_bound_lcs", "c19_patience_work_bound", "c19_patience_work_bound_items", "c19_patience_needs_consistent"],
    "C20": ["c20_identify_distinct_ext", "c20_identify_pattern", "c20_identify_first_seen", "c20_rgs_fresh", "c20_rgs_covers", "c20_rgs_next_bound", "c20_relabel_oracles_pointwise", "c20_relabel_identify", "c20_relabel_capture_diff", "c20_relabel_raw_trace", "c20_relabel_textdiff_ops", "c20_str_bytes_same_ops"],
}
SPECS = {}


def tiered(ctx, quick, thorough):
    return quick if ctx.tier == "quick" else thorough


def debug_subset(ctx, lines, k):
    """a deterministic sample of a batch for the debug build of the crate (overflow checks and debug assertions on)"""
    if len(lines) <= k:
        return lines
    step = len(lines) / float(k)
    return [lines[int(i * step)] for i in range(k)]


# ------------------------------------------------------------------ corpus
def corpus_lines(component_prefixes):
    import os
    out = []
    d = os.path.join(C.VERIF, "corpus")
    for root, _, files in os.walk(d):
        for f in sorted(files):
            if f.endswith(".case"):
                for line in open(os.path.join(root, f)):
                    line = line.strip()
                    if line and not line.startswith("#") and line.split(" ")[0] in component_prefixes:
                        out.append(line)
    return out


# ------------------------------------------------------------------ shared worlds
def small_world_raw(ctx, stack="none", algs=ALGS, dl=None):
    """exhaustive: binary pairs len<=3 with all sub-ranges (slice and offset
    lookups) + ternary pairs len<=4 (quick) / binary len<=4 all sub-ranges +
    ternary len<=5 (thorough), full range"""
    lines = []
    l2 = tiered(ctx, 3, 4)
    l3 = tiered(ctx, 4, 5)
    for a, b in gen.all_pairs(2, l2):
        for os_, oe in gen.all_ranges(len(a)):
            for ns, ne in gen.all_ranges(len(b)):
                for alg in algs:
                    lines.append(gen.raw_line(alg, a, b, (os_, oe, ns, ne), dl=dl, stack=stack))
                    ctx.count("raw:binary-subrange")
                    if (os_ + ns + len(a)) % 3 == 0:
                        lines.append(gen.raw_line(alg, a, b, (os_, oe, ns, ne), idx=(2, 5), dl=dl, stack=stack))
                        ctx.count("raw:offset-lookup")
    seen = set()
    for a, b in gen.all_pairs(3, l3):
        key = gen.canon_pair(a, b)
        if key in seen:
            continue
        seen.add(key)
        for alg in algs:
            lines.append(gen.raw_line(alg, a, b, dl=dl, stack=stack))
            ctx.count("raw:ternary-full")
    return lines


def random_world(ctx, n, maxlen, mk):
    lines = []
    for _ in range(n):
        a, b = gen.structured_pair(ctx.rng, maxlen)
        r = gen.rand_subranges(ctx.rng, a, b) if ctx.rng.random() < 0.4 else (0, len(a), 0, len(b))
        idx = (ctx.rng.randrange(0, 4), ctx.rng.randrange(0, 4)) if ctx.rng.random() < 0.2 else "S"
        lines += mk(a, b, r, idx)
        ctx.count("random:len<=%d" % maxlen)
    return lines


# ------------------------------------------------------------------ C01
def run_C01(ctx):
    rel = SPECS["C01"]["relevant"]
    C.evaluate(ctx, "corpus", corpus_lines({"raw"}), rel)
    sw = small_world_raw(ctx)
    C.evaluate(ctx, "raw-small-world", sw, rel)
    # the same world against a DEBUG build of the crate (arithmetic overflow checks, debug assertions)
    C.evaluate(ctx, "raw-small-world-debug", debug_subset(ctx, sw, tiered(ctx, 8000, 80000)), rel, dbg=True)
    # one sequence diffed against itself over different sub-ranges, the same object passed twice
    sd = []
    for a in [list(t) for n_ in range(0, 5) for t in __import__("itertools").product(range(2), repeat=n_)]:
        for os_, oe in gen.all_ranges(len(a)):
            for ns, ne in gen.all_ranges(len(a)):
                for alg in ALGS:
                    sd.append("repeat alg=%s or=%d:%d nr=%d:%d reps=1 old=%s new=%s" % (alg, os_, oe, ns, ne, gen.fmt_list(a), gen.fmt_list(a)))
                    ctx.count("repeat:self-diff-same-object")
    C.evaluate(ctx, "self-diff-same-object", sd, lambda comp, kv: {"no_panic", "deterministic"})
    n = tiered(ctx, 3000, 30000)
    lines = random_world(ctx, n, tiered(ctx, 40, 120),
                         lambda a, b, r, idx: [gen.raw_line(alg, a, b, r, idx=idx) for alg in ALGS])
    C.evaluate(ctx, "raw-random", lines, rel)
    big = random_world(ctx, tiered(ctx, 30, 300), 300,
                       lambda a, b, r, idx: [gen.raw_line(alg, a, b, r, idx=idx) for alg in "MP"])
    C.evaluate(ctx, "raw-random-300", big, rel)
    # very unbalanced sizes: nothing / one item / a handful against thousands
    unb = []
    for n in tiered(ctx, [3000], [3000, 20000]):
        long_ = gen.rand_seq(ctx.rng, n, ctx.rng.choice([3, 1000]))
        for short in ([], [long_[n // 2]], [5], long_[:2], [long_[-1], long_[0]], long_[n // 3:n // 3 + 7]):
            for alg in ALGS:
                if alg == "L" and n > 5000:
                    continue
                unb.append(gen.raw_line(alg, short, long_))
                unb.append(gen.raw_line(alg, long_, short))
                ctx.count("raw:unbalanced-%d" % n, 2)
    C.evaluate(ctx, "raw-unbalanced", unb, rel, x=False, cap=120)


SPECS["C01"] = dict(
    need_debug=True,
    level="proof",
    manifest=dict(
        text="Machine-checked theorems (Props/C01.v, all closed under the global context, no size bound): for every comparison oracle, every in-bounds pair of ranges and EVERY deadline clock, the calls Myers and LCS deliver to a recording hook form a strong raw walk (positive lengths, contiguous cursors, element-wise equal Equal segments, exact Delete index, Insert index within its run), which implies the property's run-relative reading (c01_strong_implies_spec) and finish-last; neither algorithm panics or runs out of fuel (c01_myers_no_panic rests on the full proof of the bidirectional middle-snake search: c01_snake_spec); replaying the callbacks reproduces the new range. Patience validity is proved in the same style (c01_patience_valid, c01_patience_no_panic). The sub-range clause is a theorem too: diffing ranges (os..oe, ns..ne) equals diffing the sequences cut at os / ns on (0..oe-os, 0..ne-ns) with os / ns added to every reported index, for all three algorithms, every clock, raw and through the capture pipeline, with equal panics and counters (c01_raw_shift, c01_raw_shift_slices, c01_capture_shift); the correspondence additionally runs all sub-ranges and offset lookups on the real crate. The extracted check_raw (reflection proved) is run on every call log of the real crate.",
        note='Trusted: Coq 8.16.1 kernel; extraction with ExtrOcamlBasic only; OCaml driver and Rust harness glue; the tie of the hand-written model to /repo is the correspondence check (differential testing on the generated inputs, rebuilt from the working tree every run), not a proof about the Rust source. usize wrap-around is not modelled.',
        technique='Coq proof (Myers middle-snake theory, conquer invariants, LCS) + model/implementation correspondence + verified checker on implementation output',
    ),
    relevant=lambda comp, kv: {"no_panic", "no_error", "raw_valid", "finish_last", "big_offsets"},
    run=run_C01,
    generators="raw component, recording hook, no deadline: every pair of binary sequences up to length 3 (quick) "
               "/ 4 (thorough) with every pair of sub-ranges for the three algorithms, a third of them also through an "
               "offset lookup; every pair of ternary sequences up to length 4 / 5 modulo relabelling; structured random "
               "pairs (near-identical, block moves, periodic, low-entropy, unique-rich, repeats next to edits, "
               "unrelated) up to length 40 / 120 with random sub-ranges and offset lookups; Myers/Patience up to 300.  The entry "
               "point is picked from a hash of the case: algorithms::diff_deadline, algorithms::diff, the algorithm's own "
               "module functions with and without deadline parameter.  The small world also runs against a debug build of "
               "the crate, and every binary sequence up to length 4 is diffed against itself (same object passed twice) "
               "over all pairs of sub-ranges; every offset-lookup case is repeated with offsets 2^32-3, 2^40, 2^63-2 and with the "
               "longer range ending exactly at usize::MAX",
)


# ------------------------------------------------------------------ C02
def small_world_capture(ctx, algs=ALGS, dl=None, repair=0):
    lines = []
    l2 = tiered(ctx, 3, 4)
    l3 = tiered(ctx, 4, 5)
    for a, b in gen.all_pairs(2, l2):
        for os_, oe in gen.all_ranges(len(a)):
            for ns, ne in gen.all_ranges(len(b)):
                for alg in algs:
                    lines.append(gen.capture_line(alg, a, b, (os_, oe, ns, ne), dl=dl, repair=repair))
                    ctx.count("capture:binary-subrange")
    seen = set()
    for a, b in gen.all_pairs(3, l3):
        key = gen.canon_pair(a, b)
        if key in seen:
            continue
        seen.add(key)
        for alg in algs:
            lines.append(gen.capture_line(alg, a, b, dl=dl, repair=repair))
            ctx.count("capture:ternary-full")
    return lines


def capture_with_deadlines(ctx, pairs, algs=ALGS, repair=0):
    """for each pair and algorithm: the never-expiring clock first (to learn the
    number of probes), then every expiry point k"""
    first = []
    meta = []
    for a, b, r, idx in pairs:
        for alg in algs:
            first.append(gen.capture_line(alg, a, b, r, idx=idx, dl=10 ** 9, repair=repair))
            meta.append((alg, a, b, r, idx))
    impl, _, _ = C.run_batch(ctx, first, want_model=False, want_check=False)
    lines = []
    import re
    for (alg, a, b, r, idx), im in zip(meta, impl):
        m = re.search(r"probes=(\d+)", im)
        p = int(m.group(1)) if m else 0
        for k in range(0, min(p, 40) + 1):
            lines.append(gen.capture_line(alg, a, b, r, idx=idx, dl=k, repair=repair))
            ctx.count("capture:deadline-k")
    return first + lines


def run_C02(ctx):
    rel = SPECS["C02"]["relevant"]
    C.evaluate(ctx, "corpus", corpus_lines({"capture"}), rel)
    sw = small_world_capture(ctx)
    C.evaluate(ctx, "capture-small-world", sw, rel)
    C.evaluate(ctx, "capture-small-world-debug", debug_subset(ctx, sw, tiered(ctx, 8000, 80000)), rel, dbg=True)
    lines = random_world(ctx, tiered(ctx, 2000, 20000), tiered(ctx, 40, 120),
                         lambda a, b, r, idx: [gen.capture_line(alg, a, b, r, idx=idx) for alg in ALGS])
    C.evaluate(ctx, "capture-random", lines, rel)
    pairs = []
    for a, b in gen.all_pairs(2, tiered(ctx, 3, 4)):
        pairs.append((a, b, None, "S"))
    for _ in range(tiered(ctx, 150, 1500)):
        a, b = gen.structured_pair(ctx.rng, 30)
        pairs.append((a, b, None, "S"))
    C.evaluate(ctx, "capture-deadline-every-k", capture_with_deadlines(ctx, pairs), rel)
    # the op list stored in a text diff: small texts, both sides of the 100-token switch, builder deadlines
    cases = []
    for o, n in text_pairs(ctx, tiered(ctx, 150, 1500), invalid=False):
        for alg in ALGS:
            cases.append((ctx.rng.choice(TOKS_DIFF), alg, ctx.rng.choice(["str", "bytes"]), None, "-", o, n))
            ctx.count("textdiff:small")
    cases.extend(threshold_text_cases(ctx))
    cases.extend(threshold_deadline_cases(ctx))
    C.evaluate(ctx, "textdiff-ops", textdiff_lines(ctx, cases), rel, nontrivial=nontrivial_text, cap=60)
    C.evaluate(ctx, "textdiff-65536-distinct", huge_distinct_cases(ctx), rel, x=False, cap=300, nontrivial=nontrivial_text)
    # LCS with a differing middle of more than 2^24 table cells (mostly distinct items, a few shared)
    big = []
    for n in tiered(ctx, [4200], [4097, 4200, 5000]):
        a = [3 * i for i in range(n)]
        b = [3 * i + 1 for i in range(n)]
        for j in range(0, n, 97):
            b[j] = a[j]
        big.append(gen.capture_line("L", [7] + a + [9], [7] + b + [9]))
        ctx.count("capture:lcs-over-2^24-cells")
    C.evaluate(ctx, "capture-lcs-large-table", big, rel, x=False, cap=300)


SPECS["C02"] = dict(
    need_debug=True,
    level="proof",
    manifest=dict(
        text="Machine-checked theorems (Props/C02.v, closed under the global context): for Myers and LCS, every comparison oracle, every in-bounds pair of ranges, EVERY deadline clock, both build modes: capture_diff never panics and returns ops that walk both ranges left to right without gap or overlap with element-wise equal Equal ops (OpsLoose); applying them to old yields new and the inverted ops turn new into old; identical inputs give exactly one Equal (none for empty inputs); the exact ratio 2*matches/(N+M) is in [0,1] and equals 1 iff the inputs are equal. The proof composes raw validity (C01), the buffering simulation through Compact, Compact's 12 rewrite arms and Replace. The c02_*_all theorems state the same for all three algorithms including Patience (validity, completion, application, ratio; identical inputs give one Equal provided the two uniqueness oracles agree on the identical ranges, which any consistent item equality satisfies; debug assertions never change a result). The extracted check_ops_loose (reflection proved) runs on every captured op list of the real crate incl. TextDiff::ops.",
        note='Trusted: Coq 8.16.1 kernel; extraction with ExtrOcamlBasic only; OCaml driver and Rust harness glue; the tie of the hand-written model to /repo is the correspondence check (differential testing on the generated inputs, rebuilt from the working tree every run), not a proof about the Rust source. usize wrap-around is not modelled.',
        technique='Coq proof of the whole capture pipeline + correspondence + verified checker on implementation output',
    ),
    # text diffs: "applying the ops to old yields new" is also read off the expanded changes (linear, so it is
    # evaluated on the very large cases too, where the unary-number walk is skipped)
    relevant=lambda comp, kv: {"no_panic", "ops_loose", "ratio_range", "identical_only_equal"} | (
        {"reconstruct_old", "reconstruct_new", "change_index_shape"} if comp == "textdiff" else set()),
    run=run_C02,
    generators="capture component (capture_diff_deadline + get_diff_ratio): the exhaustive small worlds of C01 with all "
               "sub-ranges; structured random pairs; and for every binary pair up to length 3/4 and random pairs up to "
               "length 30 every deadline expiry point k = 0..#probes; TextDiff::ops on small texts, on both sides of the "
               "100-token switch and under builder deadlines expiring at probe 0, 1, 3 (identical texts, pure insertions, "
               "deletions, appends, empty sides)",
)


# ------------------------------------------------------------------ C03
def run_C03(ctx):
    rel = SPECS["C03"]["relevant"]
    C.evaluate(ctx, "corpus", corpus_lines({"raw", "capture"}), rel)
    C.evaluate(ctx, "raw-small-world", small_world_raw(ctx, algs="ML"), rel)
    C.evaluate(ctx, "capture-small-world", small_world_capture(ctx, algs="ML"), rel)
    lines = random_world(ctx, tiered(ctx, 1500, 15000), tiered(ctx, 40, 100),
                         lambda a, b, r, idx: [gen.raw_line(alg, a, b, r, idx=idx) for alg in "ML"]
                         + [gen.capture_line(alg, a, b, r, idx=idx) for alg in "ML"])
    C.evaluate(ctx, "random", lines, rel)
    big = random_world(ctx, tiered(ctx, 20, 200), 250,
                       lambda a, b, r, idx: [gen.capture_line("M", a, b, r, idx=idx)])
    C.evaluate(ctx, "capture-random-250", big, rel)
    # boxes that need many thousands of rounds (an internal cap on the number of rounds would show here): nearly
    # unrelated sequences with a planted common subsequence of unique large values; a minimal script must use it
    huge = []
    for n in tiered(ctx, [9000, 35000], [3000, 9000, 12000, 35000]):
        a = [2 * i for i in range(n)]
        b = [2 * i + 1 for i in range(n)]
        ctx.rng.shuffle(a)
        ctx.rng.shuffle(b)
        k = 150
        pa = sorted(ctx.rng.sample(range(n), k))
        pb = sorted(ctx.rng.sample(range(n), k))
        for j in range(k):
            a[pa[j]] = 10 ** 7 + j
            b[pb[j]] = 10 ** 7 + j
        huge.append(gen.raw_line("M", a, b) + " planted=10000000")
        ctx.count("raw:planted-subsequence-%d" % n)
    C.evaluate(ctx, "raw-many-rounds", huge, rel, x=False, cap=300)
    # mid-size structured inputs that need hundreds of rounds and contain long common runs off the optimal alignment
    # (a "good enough" early exit of the middle-snake search would show here): the optimum is too expensive for the
    # unary-number DP, so Myers and the crate's LCS algorithm are run on the same input and must report the same cost
    cl = []
    for _ in range(tiered(ctx, 12, 60)):
        n = ctx.rng.choice([1200, 2000])
        fam = ctx.rng.randrange(3)
        if fam == 0:      # periodic with hundreds of edits on each side
            per = ctx.rng.choice([7, 23, 40])
            a = [i % per for i in range(n)]
            b = list(a)
            a = gen.edit_seq(ctx.rng, a, ctx.rng.randrange(150, 400), per)
            b = gen.edit_seq(ctx.rng, b, ctx.rng.randrange(150, 400), per)
        elif fam == 1:    # one long run of a single item with others sprinkled in
            a = [0] * n
            b = [0] * n
            for _j in range(ctx.rng.randrange(200, 400)):
                a[ctx.rng.randrange(n)] = ctx.rng.randrange(1, 50)
                b[ctx.rng.randrange(n)] = ctx.rng.randrange(1, 50)
        else:             # a displaced copy of a chunk inside otherwise different material
            chunk = [1000 + i % 30 for i in range(ctx.rng.randrange(40, 200))]
            a = gen.rand_seq(ctx.rng, n // 2, 200) + chunk + gen.rand_seq(ctx.rng, n // 2, 200)
            b = chunk + gen.rand_seq(ctx.rng, n // 2, 200) + chunk + gen.rand_seq(ctx.rng, n // 3, 200)
        cl.append("costs old=%s new=%s" % (gen.fmt_list(a), gen.fmt_list(b)))
        ctx.count("costs:myers-vs-lcs-structured")
    C.evaluate(ctx, "costs-myers-vs-lcs", cl, rel, cap=300, nontrivial=lambda comp, kv, impl: "M=0" not in impl)
    # lopsided boxes: a handful of items against thousands, the short side's items occurring on the long side many
    # times and in other orders (a leftmost greedy embedding of the short side is not an LCS); the box is small enough
    # for the exact optimum of the checker (clause minimal), and Myers and LCS are compared as well
    lop, lopc = [], []
    for _ in range(tiered(ctx, 10, 60)):
        k = ctx.rng.randrange(3, 17)
        m = ctx.rng.choice([4096, 4500, 6000])
        short = list(range(1, k + 1))
        long_ = [100 + ctx.rng.randrange(50) for _ in range(m)]
        for _j in range(ctx.rng.randrange(k, 6 * k)):
            long_[ctx.rng.randrange(m)] = ctx.rng.choice(short)
        # a late occurrence of an early item behind occurrences of the later ones
        long_[ctx.rng.randrange(m // 2)] = short[-1]
        if ctx.rng.random() < 0.5:
            long_[:k - 1] = short[1:]
            long_[-1] = short[0]
        a, b = (short, long_) if ctx.rng.random() < 0.7 else (long_, short)
        lop.append(gen.raw_line("M", a, b))
        lop.append(gen.capture_line("M", a, b))
        lopc.append("costs old=%s new=%s" % (gen.fmt_list(a), gen.fmt_list(b)))
        ctx.count("raw:lopsided-box")
    C.evaluate(ctx, "lopsided-boxes", lop, rel, x=False, cap=300)
    C.evaluate(ctx, "costs-lopsided", lopc, rel, cap=300, nontrivial=lambda comp, kv, impl: "M=0" not in impl)


SPECS["C03"] = dict(
    level="proof",
    manifest=dict(
        text="Machine-checked theorems (Props/C03.v, closed under the global context): without deadline the raw scripts of Myers and of LCS delete+insert exactly N+M-2L items where L is the length of a longest common subsequence (relational IsLcsLen), for every comparison oracle and every pair of ranges; no valid script is cheaper; the DP used by the checker computes L. Myers minimality rests on the complete proof of find_middle_snake (furthest-reaching invariant, first passing round = ceil(D/2), additivity of the split). Preservation of cost through Compact/Replace is C10's theorem; the capture-level statement is proved in Proofs/Pipeline.v when present. The extracted check_minimal/lcs_len are run on the real crate's raw and captured output.",
        note='Trusted: Coq 8.16.1 kernel; extraction with ExtrOcamlBasic only; OCaml driver and Rust harness glue; the tie of the hand-written model to /repo is the correspondence check (differential testing on the generated inputs, rebuilt from the working tree every run), not a proof about the Rust source. usize wrap-around is not modelled.',
        technique='Coq proof (edit-graph theory, snake correctness, LCS DP) + correspondence + verified checker against extracted optimum',
    ),
    relevant=lambda comp, kv: {"no_panic", "minimal", "minimal_planted", "minimal_agree", "equal_is_lcs", "ratio_2L"},
    run=run_C03,
    generators="raw and capture components, algorithms Myers and LCS, no deadline: exhaustive small worlds with "
               "sub-ranges, structured random pairs up to 100, Myers capture up to 250; the optimum is computed by the "
               "extracted lcs_len (Check/Script.v); nearly unrelated sequences of 9000 and 35000 items with a "
               "planted common subsequence, where a minimal script needs more than 8000 rounds and must use the planted items",
)


# ------------------------------------------------------------------ C07
def raw_with_deadlines(ctx, pairs, algs=ALGS, kmax=60):
    first = []
    meta = []
    for a, b, r, idx in pairs:
        for alg in algs:
            first.append(gen.raw_line(alg, a, b, r, idx=idx, dl=10 ** 9))
            first.append(gen.raw_line(alg, a, b, r, idx=idx, dl=None))
            meta.append((alg, a, b, r, idx))
    impl, _, _ = C.run_batch(ctx, first, want_model=False, want_check=False)
    lines = []
    import re
    never_ne = []
    for t, (alg, a, b, r, idx) in enumerate(meta):
        im_never, im_none = impl[2 * t], impl[2 * t + 1]
        m = re.search(r"probes=(\d+)", im_never)
        p = int(m.group(1)) if m else 0
        if im_never.split(" ")[0] != im_none.split(" ")[0]:
            never_ne.append((first[2 * t], im_never, im_none))
        ks = list(range(0, min(p, kmax) + 1))
        if p > kmax:
            ks += sorted({ctx.rng.randrange(kmax, p + 1) for _ in range(10)})
        for k in ks:
            lines.append(gen.raw_line(alg, a, b, r, idx=idx, dl=k))
            ctx.count("raw:deadline-k")
    return first, lines, never_ne


def run_C07(ctx):
    rel = SPECS["C07"]["relevant"]
    pairs = [(a, b, None, "S") for a, b in gen.all_pairs(2, tiered(ctx, 3, 4))]
    for a, b in gen.all_pairs(3, 3):
        if ctx.rng.random() < tiered(ctx, 0.15, 1.0):
            pairs.append((a, b, None, "S"))
    for _ in range(tiered(ctx, 300, 3000)):
        a, b = gen.structured_pair(ctx.rng, tiered(ctx, 40, 80))
        r = gen.rand_subranges(ctx.rng, a, b) if ctx.rng.random() < 0.3 else None
        pairs.append((a, b, r, "S"))
    first, lines, never_ne = raw_with_deadlines(ctx, pairs)
    C.evaluate(ctx, "corpus", corpus_lines({"raw"}), rel)
    C.evaluate(ctx, "raw-never-and-none", first, rel)
    C.evaluate(ctx, "raw-deadline-every-k", lines, rel)
    for case, a, b in never_ne:
        ctx.failures.append(dict(batch="never-vs-none", case=case, impl=a, model=b,
                                 clauses=["never_expiring_deadline_eq_no_deadline"], dbg=False))
    # promptness on larger inputs: a big dissimilar block of repeated items before a unique common anchor,
    # near-identical and unrelated sequences, deadline expired before the start / after a few probes
    big = []
    for n in tiered(ctx, [200, 800], [200, 800, 2000]):
        for rep in range(tiered(ctx, 3, 10)):
            A = [ctx.rng.randrange(3) for _ in range(n)]
            B = [3 + ctx.rng.randrange(3) for _ in range(n)]
            fams = [(A + [100, 101, 102], B + [100, 101, 103]),
                    ([100] + A + [101], [100] + B + [101]),
                    (gen.rand_seq(ctx.rng, n, 4), gen.rand_seq(ctx.rng, n, 4)),
                    (list(range(n)), gen.edit_seq(ctx.rng, list(range(n)), 5, 3 * n))]
            for a, b in fams:
                for alg in ALGS:
                    if alg == "L" and n > 800:
                        continue
                    for k in (0, 1, 3):
                        big.append(gen.raw_line(alg, a, b, dl=k))
                        ctx.count("raw:large-expired-deadline")
    C.evaluate(ctx, "raw-large-expired", big, rel, x=False, cap=120)
    # plumbing: capture_diff_deadline reaches the algorithm (probes > 0, same ops as the model with clock 0)
    cap = []
    for a, b, r, idx in pairs[:tiered(ctx, 400, 4000)]:
        if a and b and a != b:
            for alg in ALGS:
                cap.append(gen.capture_line(alg, a, b, r, idx=idx, dl=0))
    C.evaluate(ctx, "capture-deadline-0", cap, rel)
    # TextDiffConfig::deadline / timeout reach the algorithm; a timeout too large for an Instant means "no deadline"
    td = []
    for o, n in text_pairs(ctx, tiered(ctx, 150, 1500), invalid=False):
        for alg in ALGS:
            tok = ctx.rng.choice(["lines", "words", "chars"])
            for via, dl in (("deadline", 0), ("timeout", 0), ("deadline", 1), ("timeout", 10 ** 9), ("timeout_max", None)):
                td.append((tok, alg, "str", dl, "-", o, n, via))
                ctx.count("textdiff:deadline-plumbing")
    C.evaluate(ctx, "textdiff-deadline", textdiff_lines(ctx, td), rel, nontrivial=nontrivial_text)
    C.evaluate(ctx, "textdiff-deadline-threshold", textdiff_lines(ctx, threshold_deadline_cases(ctx)), rel,
               nontrivial=nontrivial_text, cap=60)
    # the deadline VALUE that reaches the algorithm (hook: last value passed to deadline_exceeded): an absolute
    # deadline arrives unchanged through every entry point; a timeout is counted from the start of the diff,
    # also when the builder was configured earlier, reused or cloned
    pl = []
    texts = [("hello world\nfoo bar\nx\n", "hello world\nfoo baz\ny\n"), ("abcabba", "cbabac")]
    # several hundred unique items per side whose orders differ in the middle (inner runs of Patience see a deadline too)
    u1 = [chr(0x100 + i) for i in range(300)]
    u2 = u1[:100] + list(reversed(u1[100:200])) + u1[200:]
    texts.append(("".join(u1), "".join(u2)))
    for _ in range(tiered(ctx, 2, 12)):
        a, b = gen.structured_pair(ctx.rng, 12)
        if a and b and a != b and a[0] != b[0] and a[-1] != b[-1]:
            texts.append(("".join(chr(97 + x % 26) for x in a), "".join(chr(97 + x % 26) for x in b)))
    for o, n in texts:
        for alg in ALGS:
            for entry in ("real_past", "real_future", "real_past_then_future", "timeout", "timeout_reuse", "timeout_clone", "deadline_then_timeout", "timeout_then_deadline",
                          "deadline", "capture", "capture_slices",
                          "algo", "algo_slices", "inline"):
                if entry == "inline" and "\n" not in o:
                    continue
                pl.append("plumb entry=%s alg=%s gap=12 d=4 old=%s new=%s" % (entry, alg, o.encode().hex(), n.encode().hex()))
                ctx.count("plumb:" + entry)
    C.evaluate(ctx, "deadline-value-plumbing", pl, rel, nontrivial=lambda comp, kv, impl: "seen=1" in impl)


def relevant_C07(comp, kv):
    return {"no_panic", "no_error", "raw_valid", "finish_last", "post_expiry_work", "ops_loose", "deadline_plumbed", "deadline_value",
            "reconstruct_old", "reconstruct_new"}


SPECS["C07"] = dict(
    level="proof",
    manifest=dict(
        text="Machine-checked theorems (Props/C07.v, closed under the global context): the validity and completion theorems of C01 hold for EVERY clock, i.e. whichever probe the deadline expires at (Myers: the snake answers None only after a probe answered true and conquer then emits one delete and one insert; LCS: the table is abandoned and the tail emits the remaining delete/insert), with finish exactly once and last. A deadline that never expires gives exactly the result of no deadline: proved for raw traces, capture_diff and text diffs of all three algorithms with no premise at all (c07_never_expire_*, from a generic parametricity theorem c07_alg_parametric: two hook/clock worlds that answer alike make every algorithm run alike, including equal panics). After expiry at most N+M (Myers), 0 (LCS), 2(N+M)+1 (Patience) further comparisons are made, for every monotone clock (c07_post_expiry_bound; the harness clock is monotone: c07_clock_at_mono); the harness counts them on the real crate through the cfg(similar_verif) clock, compares the count with the model and checks the proved bounds. By nature checked on the real code only: the plumbing: probe counts compared with the model, and the deadline VALUE that reaches deadline_exceeded (hook) must be the configured instant, or diff start + timeout, through eleven entry points / setter orders.",
        note='Trusted: Coq 8.16.1 kernel; extraction with ExtrOcamlBasic only; OCaml driver and Rust harness glue; the tie of the hand-written model to /repo is the correspondence check (differential testing on the generated inputs, rebuilt from the working tree every run), not a proof about the Rust source. usize wrap-around is not modelled.',
        technique='Coq proof over all clocks + fault enumeration of every expiry point k on the real code via the virtual-clock hook + verified checker',
    ),
    relevant=relevant_C07,
    run=run_C07,
    generators="raw component with the cfg(similar_verif) virtual clock: for every binary pair up to length 3/4, a "
               "sample of ternary pairs up to 3 and structured random pairs up to 40/80, the run with a never-expiring "
               "deadline, the run without deadline (must be identical), and every expiry point k = 0..#probes "
               "(all k up to 60, then 10 random later ones); capture_diff_deadline with the clock expiring at probe 0",
)


# ------------------------------------------------------------------ C08
STACKS = ["none", "mutref", "nofinish", "replace", "replace_norep", "replace_nofinish", "compact", "compact_replace", "replace_compact"]


def run_C08(ctx):
    rel = SPECS["C08"]["relevant"]
    pairs = []
    for a, b in gen.all_pairs(2, tiered(ctx, 3, 4)):
        pairs.append((a, b))
    for _ in range(tiered(ctx, 100, 1500)):
        pairs.append(gen.structured_pair(ctx.rng, 25))
    first = []
    meta = []
    for a, b in pairs:
        for alg in ALGS:
            for st in STACKS:
                # no deadline, and the deadline expiring at probe 0 / 1 / 2 (the
                # fallback paths make different hook calls)
                for dl in (None, 0, 1, 2):
                    if dl is not None and dl > 0 and len(a) + len(b) < 3:
                        continue
                    first.append(gen.raw_line(alg, a, b, stack=st, dl=dl))
                    meta.append((alg, a, b, st, dl))
    # one long-lived Replace adapter used for the same diff twice (after finish it must be as good as new)
    for a, b in pairs:
        for alg in ALGS:
            first.append(gen.raw_line(alg, a, b, stack="replace_twice"))
            meta.append((alg, a, b, "replace_twice", None))
            ctx.count("raw:adapter-reused-for-a-second-diff")
    impl, _, _ = C.evaluate(ctx, "raw-stacks-unfailed", first, rel)
    lines = []
    for (alg, a, b, st, dl), im in zip(meta, impl):
        if st == "replace_twice":
            continue
        calls = im.split(" ")[0].split("=", 1)[1] if im.startswith("calls=") else "-"
        ncalls = 0 if calls == "-" else len(calls.split(","))
        ks = range(0, ncalls + 1) if ncalls <= 12 else sorted({0, 1, ncalls - 1, ncalls} | {ctx.rng.randrange(ncalls) for _ in range(6)})
        for k in ks:
            lines.append(gen.raw_line(alg, a, b, stack=st, fail=k, dl=dl))
            ctx.count("raw:fail-at-k" + ("" if dl is None else "+deadline"))
    C.evaluate(ctx, "raw-stacks-fail-every-k", lines, rel)
    # arbitrary scripts through the adapters, failing at every k
    ad = []
    for a, b in gen.all_pairs(2, 2):
        for sc in gen.all_scripts(a, b, limit=40):
            for st in ["replace", "replace_norep", "compact", "compact_replace", "replace_compact", "nofinish", "mutref"]:
                n_out = len(sc) + 1
                for k in range(0, n_out):
                    ad.append(gen.adapter_line(a, b, sc, st, fail=k))
                    ctx.count("adapter:fail-at-k")
    if ctx.tier == "quick":
        ctx.rng.shuffle(ad)
        ad = ad[:20000]
    C.evaluate(ctx, "adapter-fail-every-k", ad, rel)
    # scripts that contain replace calls, through the forwarding wrappers and adapters, unfailed and failing at every k
    fw = []
    for a, b in gen.all_pairs(2, 2):
        if not a or not b:
            continue
        for cut in range(0, min(len(a), len(b)) + 1):
            sc = []
            if cut:
                continue
            sc = [("R", 0, len(a), 0, len(b)), ("F",)]
            sc2 = [("D", 0, len(a), 0), ("I", len(a), 0, len(b)), ("F",)]
            for st in ["mutref", "nofinish", "replace", "replace_norep", "replace_nofinish", "compact", "compact_replace", "replace_compact"]:
                for script in (sc, sc2):
                    fw.append(gen.adapter_line(a, b, script, st))
                    for k in range(0, 4):
                        fw.append(gen.adapter_line(a, b, script, st, fail=k))
                    ctx.count("adapter:replace-call-forwarding")
    # replace events with an empty side (hand-built Replace ops replayed with apply_to_hook, direct replace calls):
    # the default body still makes both calls; "norep" is a hook without its own replace called directly
    for a, b in gen.all_pairs(2, 2):
        for ol in range(0, len(a) + 1):
            for nl in range(0, len(b) + 1):
                if ol and nl and (ol, nl) != (len(a), len(b)):
                    continue
                pre = [("E", 0, 0, 0)] if (len(a) + len(b)) % 2 else []
                script = pre + [("R", 0, ol, 0, nl), ("F",)]
                # (forwarding stacks only: these scripts are single events, not complete edit scripts)
                for st in ["norep", "mutref", "nofinish"]:
                    fw.append(gen.adapter_line(a, b, script, st))
                    for k in range(0, 3):
                        fw.append(gen.adapter_line(a, b, script, st, fail=k))
                    ctx.count("adapter:replace-event-with-empty-side")
    C.evaluate(ctx, "adapter-forwarding", fw, rel)


SPECS["C08"] = dict(
    level="proof",
    manifest=dict(
        text="Machine-checked theorems (Props/C08.v, closed under the global context): finish is emitted once and last by Myers and LCS for every clock; Replace over ANY inner hook is a pure transducer of call lists (what reaches the inner hook is replace_trace, in order; an inner failure propagates); Compact emits nothing before finish and then the cleaned ops followed by finish; NoFinishHook forwards everything but finish; the default replace is delete then insert. The model has no error channel, so 'a hook error aborts the diff unchanged' is decided on the real code by fault enumeration: a recording hook failing at EVERY call index k, for 3 algorithms x 10 hook stacks x {no deadline, clock expiring at probe 0/1/2}, must log exactly k+1 calls and return the injected error. Also proved: Compact under ANY body of events without a finish, replace events included, shows the wrapped hook nothing before finish and then the cleaned-up ops and exactly one finish (c08_compact_hook_events), and its composition with Replace on the outside (c08_replace_over_compact).",
        note='Trusted: Coq 8.16.1 kernel; extraction with ExtrOcamlBasic only; OCaml driver and Rust harness glue; the tie of the hand-written model to /repo is the correspondence check (differential testing on the generated inputs, rebuilt from the working tree every run), not a proof about the Rust source. usize wrap-around is not modelled.',
        technique='Coq proof of the transducer structure + exhaustive fault injection at every hook call index on the real code',
    ),
    relevant=lambda comp, kv: {"no_panic", "no_error", "abort", "finish_last", "nofinish_no_fin", "no_rep",
                               "forwards_unchanged", "ops_exact", "alternating", "twice_same"},
    run=run_C08,
    generators="raw component over 3 algorithms x 10 hook stacks (plus a hook without its own replace called directly in the adapter component; recording hook, &mut, NoFinishHook, Replace over a hook "
               "with / without its own replace, Replace over NoFinishHook, Compact, Compact+Replace, Replace over Compact, "
               "one Replace adapter used for the same diff twice) on every binary pair up to length 3/4 and "
               "random pairs up to 25, without deadline and with the virtual clock expiring at probe 0, 1 and 2: the unfailed "
               "run, then the recording hook failing at every call index k; "
               "adapter component: every valid script of binary pairs up to length 2 through the adapter stacks, "
               "failing at every k",
)


# ------------------------------------------------------------------ C09
def run_C09(ctx):
    rel = SPECS["C09"]["relevant"]
    C.evaluate(ctx, "corpus", corpus_lines({"capture", "adapter"}), rel)
    sw = small_world_capture(ctx)
    C.evaluate(ctx, "capture-small-world", sw, rel)
    C.evaluate(ctx, "capture-small-world-debug", debug_subset(ctx, sw, tiered(ctx, 8000, 80000)), rel, dbg=True)
    lines = random_world(ctx, tiered(ctx, 2000, 20000), tiered(ctx, 40, 120),
                         lambda a, b, r, idx: [gen.capture_line(alg, a, b, r, idx=idx) for alg in ALGS])
    C.evaluate(ctx, "capture-random", lines, rel)
    pairs = [(a, b, None, "S") for a, b in gen.all_pairs(2, 3)]
    for _ in range(tiered(ctx, 100, 1000)):
        a, b = gen.structured_pair(ctx.rng, 30)
        pairs.append((a, b, None, "S"))
    C.evaluate(ctx, "capture-deadline-every-k", capture_with_deadlines(ctx, pairs), rel)
    C.evaluate(ctx, "adapter-scripts", adapter_world(ctx, ["compact_replace"]), rel, dbg=False)
    # TextDiff::ops, both branches of the 100-token switch
    cases = []
    for o, n in text_pairs(ctx, tiered(ctx, 150, 1500), invalid=False):
        for alg in ALGS:
            cases.append((ctx.rng.choice(TOKS_DIFF), alg, ctx.rng.choice(["str", "bytes"]), None, "-", o, n))
            ctx.count("textdiff:small")
    cases.extend(threshold_text_cases(ctx))
    cases.extend(threshold_deadline_cases(ctx))
    C.evaluate(ctx, "textdiff-ops", textdiff_lines(ctx, cases), rel, nontrivial=nontrivial_text, cap=60)
    # a captured script with more than 2^18 ops (90000 blocks "unique item, changed non-unique item") and a slidable
    # insertion at its head; judged by the integer fast path of the normal-form clause (normal_big)
    nb = 90000
    a, b = [0, 0], [1, 0, 0, 0, 1, 0]
    for i in range(nb):
        a += [10 + i, 2]
        b += [10 + i, 3]
    C.evaluate(ctx, "capture-quarter-million-ops", [gen.capture_line("P", a, b)], rel, x=False, cap=300)
    # an insertion / a deletion that has to slide over a run of 70000 equal items to reach its latest position (a
    # step limit in the shift loops would leave it half way)
    run = 70000
    sl = []
    for alg in "MP":
        sl.append(gen.capture_line(alg, [8, 1] + [0] * run + [2, 9], [7, 1] + [0] * (run + 1) + [2, 6]))
        sl.append(gen.capture_line(alg, [8, 1] + [0] * (run + 1) + [2, 9], [7, 1] + [0] * run + [2, 6]))
    C.evaluate(ctx, "capture-long-slide", sl, rel, x=False, cap=300)


SPECS["C09"] = dict(
    need_debug=True,
    level="proof",
    manifest=dict(
        text="Machine-checked theorems (Props/C09.v, closed under the global context): captured ops strictly alternate Equal / non-Equal with no empty op (so a deletion adjacent to an insertion is one Replace), for every clock and build mode, and Replace produces this from ANY loosely valid non-empty script. The 'insert sits at its latest position' clause is proved too (c09_capture_normal_form for all three algorithms and every clock; c09_compact_replace_normal_form for any valid script without empty ops through Compact+Replace; c09_needs_nonempty shows the premise is necessary). The extracted check_normal (reflection proved) decides the same on every captured list of the real crate and on all valid scripts of small pairs pushed through Compact+Replace.",
        note='Trusted: Coq 8.16.1 kernel; extraction with ExtrOcamlBasic only; OCaml driver and Rust harness glue; the tie of the hand-written model to /repo is the correspondence check (differential testing on the generated inputs, rebuilt from the working tree every run), not a proof about the Rust source. usize wrap-around is not modelled.',
        technique='Coq proof of the full normal form (alternation, non-emptiness, insert-latest) + verified checker on implementation output + correspondence',
    ),
    relevant=lambda comp, kv: {"no_panic", "normal", "normal_big"} if kv.get("stack", "compact_replace") == "compact_replace" else {"no_panic"},
    run=run_C09,
    generators="capture component as in C02 (small worlds, random, every deadline expiry point), every valid script "
               "of the C10 adapter world pushed through Compact+Replace, and TextDiff::ops on small texts and on both "
               "sides of the 100-token switch (incl. insertions in front of a common tail that starts like them); one Patience "
               "capture of 90000 changed blocks (about 270000 raw ops) judged by the integer fast path normal_big",
)


# ------------------------------------------------------------------ C10
def adapter_world(ctx, stacks):
    lines = []
    l2 = tiered(ctx, 3, 4)
    for a, b in gen.all_pairs(2, l2):
        scs = gen.all_scripts(a, b, limit=tiered(ctx, 300, 3000))
        for sc in scs:
            for st in stacks:
                lines.append(gen.adapter_line(a, b, sc, st))
                ctx.count("adapter:exhaustive-binary")
    for a, b in gen.all_pairs(3, 2):
        for sc in gen.all_scripts(a, b):
            for st in stacks:
                lines.append(gen.adapter_line(a, b, sc, st))
                ctx.count("adapter:exhaustive-ternary")
    for _ in range(tiered(ctx, 1500, 15000)):
        a, b = gen.structured_pair(ctx.rng, tiered(ctx, 14, 40))
        sc = gen.random_script(ctx.rng, a, b, p_eq=ctx.rng.choice([0.3, 0.6, 0.9]))
        for st in stacks:
            lines.append(gen.adapter_line(a, b, sc, st))
            ctx.count("adapter:random-script")
    return lines


def run_C10(ctx):
    rel = SPECS["C10"]["relevant"]
    C.evaluate(ctx, "corpus", corpus_lines({"adapter"}), rel)
    # replace_twice: one Replace adapter fed the same script twice (both halves of the log must agree)
    lines = adapter_world(ctx, ["compact", "replace", "compact_replace", "replace_twice"])
    C.evaluate(ctx, "adapter-release", lines, rel, dbg=False)
    C.evaluate(ctx, "adapter-debug", lines, rel, dbg=True)


SPECS["C10"] = dict(
    level="proof",
    manifest=dict(
        text="Machine-checked theorems (Props/C10.v, closed under the global context): for ANY loosely valid non-empty script (not only algorithm output) Compact's cleanup yields a valid non-empty script with exactly the same numbers of deleted, inserted and equal items, terminates within the model's fuel (inner loops by a weight measure, outer loop by the lexicographic measure), does not panic when Insert indices are not too small (InsLow; exact input qualifies), the Delete slide arms are dead code, and as a hook it emits nothing before finish; Replace alone turns any strong raw walk into index-exact, strictly alternating ops with the same counts and finish last, its debug assertions unreachable; with the verification-only repair switch Compact keeps indices exact; a Replace adapter is back in its initial state after ANY completed finish, so one adapter can serve several diffs, and fed the same script twice it makes the same calls twice (c10_replace_finish_resets, c10_replace_twice_same). Normal form (insert_latest) through both adapters is checked by the extracted checker on all valid scripts of small pairs.",
        note='Trusted: Coq 8.16.1 kernel; extraction with ExtrOcamlBasic only; OCaml driver and Rust harness glue; the tie of the hand-written model to /repo is the correspondence check (differential testing on the generated inputs, rebuilt from the working tree every run), not a proof about the Rust source. usize wrap-around is not modelled.',
        technique='Coq proof (12 zipper rewrite arms, termination measures, Replace state invariant) + correspondence on all valid scripts of small pairs + verified checker',
    ),
    need_debug=True,
    relevant=lambda comp, kv: {"no_panic", "no_error", "finish_last", "ops_loose", "cost_kept", "normal", "ops_exact", "twice_same"},
    run=run_C10,
    generators="adapter component: every valid script (all ways of splitting and interleaving delete/insert runs and "
               "equal segments) of every binary pair up to length 3/4 and ternary pair up to 2, plus random scripts of "
               "structured pairs up to 14/40, through Compact, Replace and Compact+Replace; release and debug builds "
               "(debug_assert!, usize underflow)",
)


# ------------------------------------------------------------------ C11
def run_C11(ctx):
    rel = SPECS["C11"]["relevant"]
    C.evaluate(ctx, "corpus", corpus_lines({"capture"}), rel)
    C.evaluate(ctx, "capture-small-world", small_world_capture(ctx), rel)
    C.evaluate(ctx, "capture-small-world-repaired", small_world_capture(ctx, repair=1), rel)
    lines = random_world(ctx, tiered(ctx, 2000, 20000), tiered(ctx, 40, 120),
                         lambda a, b, r, idx: [gen.capture_line(alg, a, b, r, idx=idx, repair=rp)
                                               for alg in ALGS for rp in (0, 1)])
    C.evaluate(ctx, "capture-random", lines, rel)
    # TextDiff::ops (both branches of the 100-token switch), switch off and on
    cases = []
    for o, n in text_pairs(ctx, tiered(ctx, 150, 1500), invalid=False):
        for alg in ALGS:
            cases.append((ctx.rng.choice(TOKS_DIFF), alg, ctx.rng.choice(["str", "bytes"]), None, "-", o, n))
            ctx.count("textdiff:small")
    cases.extend(threshold_text_cases(ctx))
    tl = textdiff_lines(ctx, cases)
    tl = [l + " repair=%d" % rp for l in tl for rp in (0, 1)]
    C.evaluate(ctx, "textdiff-ops", tl, rel, nontrivial=nontrivial_text, cap=60)


SPECS["C11"] = dict(
    level="proof",
    manifest=dict(
        text="Machine-checked theorems (Props/C11.v, closed under the global context): with the verification-only swap-repair switch the capture pipeline is index-exact for every input, clock and build mode (c11_exact_repaired); whenever pinned and repaired pipeline agree the pinned output is exact; c11_refuted exhibits the pinned pipeline's violation (old=[b,a], new=[a,a]) - the recorded finding F5. The check runs the extracted check_ops_exact on every captured list with the switch off and on; a failure that disappears with the switch on is the known finding, anything else is a violation.",
        note='Trusted: Coq 8.16.1 kernel; extraction with ExtrOcamlBasic only; OCaml driver and Rust harness glue; the tie of the hand-written model to /repo is the correspondence check (differential testing on the generated inputs, rebuilt from the working tree every run), not a proof about the Rust source. usize wrap-around is not modelled.',
        technique='Coq proof for the repaired pipeline + refutation witness for the pinned one + attribution by cfg-guarded repair switch',
    ),
    relevant=lambda comp, kv: {"no_panic", "ops_exact"},
    run=run_C11,
    generators="capture component, with the cfg(similar_verif) swap-repair switch off (the pinned pipeline) and on: "
               "exhaustive small worlds with sub-ranges, structured random pairs, and TextDiff::ops on small texts and on both "
               "sides of the 100-token switch.  Every case failing ops_exact with "
               "the switch off is re-run with the switch on for attribution to the known finding F5",
)


# ------------------------------------------------------------------ C12
def group_line(ops, n, via="fn"):
    return "group n=%d via=%s ops=%s" % (n, via, gen.fmt_calls(ops))


def run_C12(ctx):
    rel = SPECS["C12"]["relevant"]
    lines = []
    for n in range(0, 4):
        # op lists as they come from sub-range diffs start at arbitrary, different offsets
        for start in ((0, 0), (3, 0), (2, 7)):
            for ops in gen.alternating_lists(n, tiered(ctx, 4, 5), kinds=("D", "I", "R") if ctx.tier != "quick" else ("D", "R"), start=start):
                lines.append(group_line(ops, n))
                ctx.count("group:exhaustive-alternating")
    if ctx.tier == "quick" and len(lines) > 60000:
        ctx.rng.shuffle(lines)
        lines = lines[:60000]
    for _ in range(tiered(ctx, 3000, 30000)):
        n = ctx.rng.randrange(0, 6)
        st = (0, 0) if ctx.rng.random() < 0.3 else (ctx.rng.randrange(0, 9), ctx.rng.randrange(0, 9))
        lines.append(group_line(gen.random_alternating(ctx.rng, n, start=st), n, via=ctx.rng.choice(["fn", "capture"])))
        ctx.count("group:random-alternating")
    C.evaluate(ctx, "corpus", corpus_lines({"group"}), rel)
    C.evaluate(ctx, "group", lines, rel, nontrivial=lambda comp, kv, impl: "|" in impl or "," in impl)
    # TextDiff::grouped_ops(n) and the hunks of TextDiff::unified_diff().context_radius(n): radii from 0 to beyond
    # the input length, changes near the ends and in the middle
    tl = []
    for _ in range(tiered(ctx, 1500, 15000)):
        m = ctx.rng.randrange(0, 30)
        a = gen.rand_seq(ctx.rng, m, ctx.rng.choice([2, 5, 50]))
        b = gen.edit_seq(ctx.rng, a, ctx.rng.randrange(0, 4), 50)
        if ctx.rng.random() < 0.3 and a:
            b = list(a)
            b[ctx.rng.choice([0, len(b) - 1])] = 99
        n = ctx.rng.choice([0, 1, 2, 3, 5, m // 2, m // 2 + 1, m, m + 3, 1000])
        tl.append("group n=%d via=textdiff alg=%s old=%s new=%s" % (n, ctx.rng.choice(ALGS), gen.fmt_list(a), gen.fmt_list(b)))
        ctx.count("group:textdiff-grouped-ops-and-hunks")
    C.evaluate(ctx, "group-textdiff", tl, rel, nontrivial=lambda comp, kv, impl: "groups=-" not in impl)


SPECS["C12"] = dict(
    level="proof",
    manifest=dict(
        text="Machine-checked theorems (Props/C12.v, closed under the global context): for every alternating op list and "
             "every radius n, the model of group_diff_ops (in-place trimming of first/last Equal, split at len > 2n, drop of "
             "Equal-only groups) equals an independent declarative reference group_ref; group_ref satisfies the relational "
             "GroupSpec (context = min(n, available) items of the adjacent Equal run with the right indices, interior "
             "Equals whole and <= 2n, groups separated exactly by Equals > 2n), GroupSpec determines the result uniquely, "
             "every change appears once and in order (G2), no Equal-only group (G1), none without changes (G0). "
             "The extracted check_groups (= equality with group_ref, reflection proved) is run on the real group_diff_ops "
             "Capture::into_grouped_ops, TextDiff::grouped_ops and unified-diff hunk outputs.",
        note="Trusted: Coq kernel; extraction (ExtrOcamlBasic); OCaml driver and Rust harness glue. The tie of the model to "
             "src/common.rs is differential testing over the exhaustive boundary-length world and random lists.",
        technique="Coq proof (model = declarative reference, relational spec with uniqueness) + correspondence + verified checker on implementation output",
    ),
    relevant=lambda comp, kv: {"no_panic", "group_spec"},
    run=run_C12,
    generators="group component: every alternating op list with up to 4/5 runs, starting with either kind and at cursor (0,0), (3,0) or (2,7), equal-run "
               "lengths from {1,n-1,n,n+1,2n-1,2n,2n+1,2n+2}, n in 0..3; random alternating lists with up to 11 runs, "
               "n in 0..5, through group_diff_ops and Capture::into_grouped_ops; TextDiff::grouped_ops and the hunk ops of "
               "TextDiff::unified_diff() for radii from 0 to beyond the input length",
)


# ------------------------------------------------------------------ C13
def run_C13(ctx):
    rel = SPECS["C13"]["relevant"]
    lines = []
    old = list(range(100, 108))
    new = list(range(200, 208))
    for o in range(0, 4):
        for n in range(0, 4):
            for l1 in range(0, 4):
                lines.append("iter ops=E:%d:%d:%d old=%s new=%s" % (o, n, l1, gen.fmt_list(old), gen.fmt_list(new)))
                lines.append("iter ops=D:%d:%d:%d old=%s new=%s" % (o, l1, n, gen.fmt_list(old), gen.fmt_list(new)))
                lines.append("iter ops=I:%d:%d:%d old=%s new=%s" % (o, n, l1, gen.fmt_list(old), gen.fmt_list(new)))
                for l2 in range(0, 4):
                    lines.append("iter ops=R:%d:%d:%d:%d old=%s new=%s" % (o, l1, n, l2, gen.fmt_list(old), gen.fmt_list(new)))
                ctx.count("iter:single-op", 7)
    for _ in range(tiered(ctx, 2000, 20000)):
        n = ctx.rng.randrange(0, 6)
        ops = gen.random_alternating(ctx.rng, n)
        tot_o = sum(c[3] if c[0] == "E" else c[2] if c[0] in "DR" else 0 for c in ops)
        tot_n = sum(c[3] if c[0] in "EI" else c[4] if c[0] == "R" else 0 for c in ops)
        o = [ctx.rng.randrange(1000) for _ in range(tot_o)]
        nw = [1000 + ctx.rng.randrange(1000) for _ in range(tot_n)]
        lines.append("iter ops=%s old=%s new=%s" % (gen.fmt_calls(ops), gen.fmt_list(o), gen.fmt_list(nw)))
        ctx.count("iter:op-list")
    # whole-list iteration over NON-contiguous op lists: subsets and joined groups of a valid list
    for _ in range(tiered(ctx, 2000, 20000)):
        n = ctx.rng.randrange(0, 4)
        ops = gen.random_alternating(ctx.rng, n)
        if len(ops) < 2:
            continue
        tot_o = sum(c[3] if c[0] == "E" else c[2] if c[0] in "DR" else 0 for c in ops)
        tot_n = sum(c[3] if c[0] in "EI" else c[4] if c[0] == "R" else 0 for c in ops)
        o = [ctx.rng.randrange(1000) for _ in range(tot_o)]
        nw = [1000 + ctx.rng.randrange(1000) for _ in range(tot_n)]
        k = ctx.rng.randrange(3)
        if k == 0:      # changes only
            sub = [c for c in ops if c[0] != "E"]
        elif k == 1:    # drop a random op
            sub = list(ops)
            del sub[ctx.rng.randrange(len(sub))]
        else:           # reorder two halves
            h = ctx.rng.randrange(1, len(ops))
            sub = ops[h:] + ops[:h]
        lines.append("iter ops=%s old=%s new=%s" % (gen.fmt_calls(sub), gen.fmt_list(o), gen.fmt_list(nw)))
        ctx.count("iter:non-contiguous-op-list")
    # op lists with zero-length ops, also several in a row and at both ends (joined radius-0 groups of
    # grouped_ops look like this)
    for _ in range(tiered(ctx, 1500, 15000)):
        ops = gen.random_alternating(ctx.rng, ctx.rng.randrange(0, 4))
        tot_o = sum(c[3] if c[0] == "E" else c[2] if c[0] in "DR" else 0 for c in ops)
        tot_n = sum(c[3] if c[0] in "EI" else c[4] if c[0] == "R" else 0 for c in ops)
        o = [ctx.rng.randrange(1000) for _ in range(tot_o)]
        nw = [1000 + ctx.rng.randrange(1000) for _ in range(tot_n)]
        sub = list(ops)
        for _j in range(ctx.rng.randrange(1, 4)):
            at = ctx.rng.randrange(len(sub) + 1)
            run = []
            for _k in range(ctx.rng.choice([1, 2, 2, 3])):
                po, pn = ctx.rng.randrange(tot_o + 1), ctx.rng.randrange(tot_n + 1)
                t = ctx.rng.choice("EDIR")
                run.append({"E": ("E", po, pn, 0), "D": ("D", po, 0, pn), "I": ("I", po, pn, 0), "R": ("R", po, 0, pn, 0)}[t])
            sub[at:at] = run
        lines.append("iter ops=%s old=%s new=%s" % (gen.fmt_calls(sub), gen.fmt_list(o), gen.fmt_list(nw)))
        ctx.count("iter:zero-length-ops-in-a-row")
    C.evaluate(ctx, "iter", lines, rel, nontrivial=lambda comp, kv, impl: "changes=-" not in impl)
    # the entry point TextDiff::iter_changes(op): per-op expansion through the text diff must agree with whole-diff
    # iteration (clause perop_same of the textdiff component; replacements with more new than old lines included)
    cases = []
    for o, n in text_pairs(ctx, tiered(ctx, 150, 1500), invalid=False):
        cases.append((ctx.rng.choice(TOKS_DIFF), ctx.rng.choice(ALGS), ctx.rng.choice(["str", "bytes"]), None, "-", o, n))
        ctx.count("textdiff:iter-changes-entry")
    for k in range(1, 6):
        for j in range(1, 6):
            o = b"a\n" + b"".join(b"o%d\n" % i for i in range(k)) + b"z\n"
            n = b"a\n" + b"".join(b"n%d\n" % i for i in range(j)) + b"z\n"
            cases.append(("lines", ctx.rng.choice(ALGS), "str", None, "-", o, n))
            ctx.count("textdiff:replace-k-lines-by-j-lines")
    C.evaluate(ctx, "textdiff-iter-changes", textdiff_lines(ctx, cases), rel, nontrivial=nontrivial_text)


SPECS["C13"] = dict(
    level="proof",
    manifest=dict(
        text="Machine-checked theorems (Props/C13.v, closed under the global context): for every item type, lookups and op, "
             "the iterator state machine of the model equals the declarative expansion (iter_changes = expand_op, "
             "iter_all_changes = concat of per-op expansions, shape of every change, slice-wise expansion carries the same "
             "items, apply_to_hook into Capture is the identity), with no bound on lengths or offsets. The model is tied to "
             "src/iter.rs and DiffOp::iter_slices/apply_to_hook by running both on the same ops and by running the extracted "
             "expand_op/expand_all on the implementation's own output.",
        note="Trusted: Coq kernel; extraction (ExtrOcamlBasic); OCaml driver and Rust harness glue; the correspondence is "
             "differential testing over all four op kinds x offsets x lengths and random op lists, not a proof about the Rust source.",
        technique="Coq proof of model (state machine = declarative spec) + model/implementation correspondence + verified checker on implementation output",
    ),
    relevant=lambda comp, kv: {"no_panic", "iter_spec", "slices_spec", "recap_id", "all_changes_concat", "perop_same"},
    run=run_C13,
    generators="iter component: all four op kinds x offsets 0..3 on both sides x lengths 0..3 over sequences whose old "
               "and new values are disjoint, plus random op lists over random sequences: iter_changes, iter_slices, "
               "apply_to_hook into Capture",
)


# ====================================================================== text layer
TOKS_MODEL = ["lines", "lnl", "words", "chars"]
TOKS_DIFF = ["lines", "words", "chars", "uwords", "graphemes"]


def is_valid_utf8(b):
    try:
        b.decode("utf-8")
        return True
    except UnicodeDecodeError:
        return False


def oracle_tokens(ctx, kind, mode, texts):
    """stage 1 of the replayed-oracle protocol: ask the implementation for the
    token boundaries of an unmodelled tokenizer (unicode words / graphemes)"""
    texts = sorted(set(texts))
    lines = ["tok kind=%s mode=%s text=%s" % (kind, mode, gen.hx(t)) for t in texts]
    impl, _, _ = C.run_batch(ctx, lines, want_model=False, want_check=False)
    out = {}
    for t, im in zip(texts, impl):
        out[t] = im.split("=", 1)[1] if im.startswith("toks=") else None
    return out


def textdiff_lines(ctx, cases):
    """cases: (tok, alg, mode, dl, nlo, old, new).  Adds replayed oracle tokens
    for unicode words / graphemes; cases whose oracle is lossy are kept without
    tokens so that the checker reports them (the model then says so too)."""
    need = {}
    cases = [c if len(c) == 8 else tuple(c) + (None,) for c in cases]
    for tok, alg, mode, dl, nlo, o, n, via in cases:
        if tok in ("uwords", "graphemes"):
            need.setdefault((tok, mode), set()).update([o, n])
    orc = {k: oracle_tokens(ctx, k[0], k[1], v) for k, v in need.items()}
    out = []
    for tok, alg, mode, dl, nlo, o, n, via in cases:
        extra = "" if via is None else " via=%s" % via
        if tok in ("uwords", "graphemes"):
            a, b = orc[(tok, mode)][o], orc[(tok, mode)][n]
            if a is None or b is None or "X" in a or "X" in b:
                extra += " otoks=LOSSY ntoks=LOSSY"
            else:
                extra += " otoks=%s ntoks=%s" % (a, b)
        out.append("textdiff tok=%s alg=%s mode=%s dl=%s nlo=%s old=%s new=%s%s" % (
            tok, alg, mode, "-" if dl is None else dl, nlo, gen.hx(o), gen.hx(n), extra))
    return out


def text_pairs(ctx, n, invalid):
    out = []
    for _ in range(n):
        r = ctx.rng.random()
        if r < 0.5:
            t, alpha = gen.rand_lines_text(ctx.rng, 8, invalid)
            out.append((t, gen.edit_lines_text(ctx.rng, t, alpha)))
        else:
            a = gen.rand_text(ctx.rng, 10, invalid, line_bias=True)
            b = gen.rand_text(ctx.rng, 10, invalid, line_bias=True) if ctx.rng.random() < 0.5 else a[:ctx.rng.randrange(len(a) + 1)] + gen.rand_text(ctx.rng, 3, invalid)
            out.append((a, b))
    if not invalid:
        fix = lambda t: t if is_valid_utf8(t) else t.decode("utf-8", "ignore").encode()
        out = [(fix(a), fix(b)) for a, b in out]
    return out


def nontrivial_text(comp, kv, impl):
    return bool(re.search(r"[DIR]:", impl)) or comp in ("tok", "utf8")


import re  # noqa: E402


# ------------------------------------------------------------------ C06
def run_C06(ctx):
    rel = SPECS["C06"]["relevant"]
    lines = []
    pairs_idx = []
    texts = gen.all_texts(gen.VALID_SYMS[:12], tiered(ctx, 3, 4))
    for _ in range(tiered(ctx, 1500, 15000)):
        texts.append(gen.rand_text(ctx.rng, 14, invalid=False, line_bias=ctx.rng.random() < 0.5))
    btexts = gen.all_texts(gen.VALID_SYMS[:5] + gen.INVALID_SYMS[:5], tiered(ctx, 3, 4))
    for _ in range(tiered(ctx, 1500, 15000)):
        btexts.append(gen.rand_text(ctx.rng, 14, invalid=True, line_bias=ctx.rng.random() < 0.5))
    # every White_Space code point and its two neighbours, in word / whitespace / newline contexts
    WS = [9, 10, 11, 12, 13, 32, 133, 160, 5760] + list(range(8192, 8203)) + [8232, 8233, 8239, 8287, 12288]
    cps = sorted({c + d for c in WS for d in (-1, 0, 1) if c + d >= 0} | {0, 1, 0x1C, 0x1D, 0x1E, 0x1F, 0x7F, 0x200B, 0xFEFF})
    for cp in cps:
        ch = chr(cp).encode("utf-8")
        for pat in (b"a%sb", b" %s ", b"%s", b"a%s", b"%sa", b"\n%s\n", b"a %s b", b"%s" + ch):
            texts.append(pat.replace(b"%s", ch))
    ctx.count("tok:every-whitespace-code-point-in-context", len(cps) * 8)
    # long lines and words: a terminator / a blank at every distance 0..71 (and around 128, 256) from the start of
    # its line, so that it falls at every position of whatever block size a scanning loop might use
    nlong = 0
    for L in list(range(0, 72)) + [127, 128, 129, 255, 256, 257]:
        fills = [b"a" * L, (b"ab\xc3\xa9" * L)[:L] if L % 4 != 3 else b"b" * L]
        for fill in fills:
            try:
                fill.decode("utf-8")
            except UnicodeDecodeError:
                fill = b"c" * L
            for term in (b"\r", b"\n", b"\r\n", b" ", b"\t"):
                for tail in (b"", b"x", b"\n", b"x" * 40 + b"\r" + b"y" * 3 + b"\n"):
                    texts.append(fill + term + tail)
                    nlong += 1
            if L % 8 == 0:
                texts.append(b"q\n" + fill + b"\r" + fill + b"\r\n" + fill)
                nlong += 1
    ctx.count("tok:terminator-at-every-offset-of-long-lines", nlong)
    for t in texts:
        for k in TOKS_MODEL:
            pairs_idx.append(len(lines))
            lines.append("tok kind=%s mode=str text=%s" % (k, gen.hx(t)))
            lines.append("tok kind=%s mode=bytes text=%s" % (k, gen.hx(t)))
            ctx.count("tok:valid-utf8 str+bytes", 2)
        for k in ("uwords", "graphemes"):
            lines.append("tok kind=%s mode=str text=%s" % (k, gen.hx(t)))
            lines.append("tok kind=%s mode=bytes text=%s" % (k, gen.hx(t)))
            ctx.count("tok:oracle-tokenizers", 2)
    for t in btexts:
        for k in TOKS_MODEL + ["uwords", "graphemes"]:
            lines.append("tok kind=%s mode=bytes text=%s" % (k, gen.hx(t)))
            ctx.count("tok:invalid-utf8 bytes")
    impl, model, _ = C.evaluate(ctx, "tok", lines, rel, nontrivial=nontrivial_text, x=True)
    # on valid UTF-8 the str and byte implementations return identical tokens
    for i in pairs_idx:
        if impl[i] != impl[i + 1]:
            ctx.failures.append(dict(batch="tok-str-vs-bytes", case=lines[i], impl=impl[i] + " / bytes: " + impl[i + 1],
                                     model=None, clauses=["tok_str_bytes_agree"], dbg=False))
    # decoder and whitespace table ties
    u = []
    for a in range(256):
        u.append("utf8 text=%02x" % a)
        for b in range(0, 256, 1 if ctx.tier != "quick" else 3):
            u.append("utf8 text=%02x%02x" % (a, b))
    leads = [0xC2, 0xDF, 0xE0, 0xE1, 0xEC, 0xED, 0xEE, 0xEF, 0xF0, 0xF1, 0xF3, 0xF4, 0xF5, 0x80, 0xBF, 0x41]
    conts = [0x7F, 0x80, 0x8F, 0x90, 0x9F, 0xA0, 0xBF, 0xC0, 0x41]
    for a in leads:
        for b in conts:
            for c in conts:
                u.append("utf8 text=%02x%02x%02x" % (a, b, c))
                for d in conts:
                    u.append("utf8 text=%02x%02x%02x%02x" % (a, b, c, d))
    for t in btexts[-tiered(ctx, 500, 5000):] + texts[-tiered(ctx, 500, 5000):]:
        u.append("utf8 text=%s" % gen.hx(t))
    ctx.count("utf8:decoder-tie", len(u))
    C.evaluate(ctx, "utf8", u, rel, nontrivial=nontrivial_text)
    w = ["ws range=%d:%d" % (lo, lo + 4096) for lo in range(0, 0x110000, 4096)]
    ctx.count("ws:all-code-points", 0x110000)
    C.evaluate(ctx, "ws", w, rel, nontrivial=lambda comp, kv, impl: impl != "ws=-")


def x_skip_oracle(impl, model):
    return model == "ORACLE"


SPECS["C06"] = dict(
    level="proof",
    manifest=dict(
        text='Machine-checked theorems (Props/C06.v, closed under the global context): the UTF-8 decoder partitions the input into chars of 1-4 bytes with valid chars of length len_utf8; for lines / lines-and-newlines / words / chars the byte tokenizers on ARBITRARY bytes and the str tokenizers on valid UTF-8 return non-empty consecutive tokens whose concatenation is the input, with the documented shape (check_tokens: one terminator LF/CRLF/lone CR only at the end of a line token, maximal runs of one char class, one decoded char per token), and str = bytes on valid UTF-8. The decoder, from_utf8_lossy, str::char_indices and the 25-code-point whitespace table of the model are tied to the implementation by sweeps (all 0x110000 code points; all 1- and 2-byte strings; class representatives for 3/4-byte strings). Unicode words / graphemes are external segmentations: only losslessness is checked.',
        note='Trusted: Coq 8.16.1 kernel; extraction with ExtrOcamlBasic only; OCaml driver and Rust harness glue; the tie of the hand-written model to /repo is the correspondence check (differential testing on the generated inputs, rebuilt from the working tree every run), not a proof about the Rust source. usize wrap-around is not modelled.',
        technique='Coq proof of tokenizer models + exhaustive small-world correspondence + verified shape checker on implementation output',
    ),
    relevant=lambda comp, kv: {"no_panic", "tok_lossless", "tok_shape", "tok_str_bytes_agree"},
    run=run_C06,
    generators="tok component: every string over a 12-symbol set (a, b, space, CR, LF, NBSP, U+2028, U+3000, U+0085, "
               "combining acute, ZWJ, a regional-indicator) up to length 3/4 and random longer ones, as str and as bytes, "
               "for lines / lines-and-newlines / words / chars (model + shape checker) and unicode words / graphemes "
               "(losslessness only); every byte string over 5 valid + 5 invalid symbols up to 3/4 and random invalid "
               "texts in byte mode; utf8 component: every 1-byte string, 2-byte strings (every third / all), 3- and "
               "4-byte strings over lead and continuation class representatives (decoder, from_utf8_lossy, "
               "str::char_indices tie); ws component: char::is_whitespace for all 0x110000 code points",
)


def huge_swap_cases(ctx):
    """66000 distinct lines on both sides (token counts whose product exceeds 2^32) with two adjacent lines
    swapped in the middle and one changed: Myers and LCS break the tie differently, so the text diff must really
    run the configured algorithm.  Checker only."""
    n = 66000
    lines = [b"l%05d\n" % i for i in range(n)]
    new = list(lines)
    k = n // 2
    new[k], new[k + 1] = new[k + 1], new[k]
    new[k + 500] = b"changed\n"
    old, nw = b"".join(lines), b"".join(new)
    ctx.count("textdiff:66000-lines-swap", 3)
    return ["textdiff tok=lines alg=%s mode=bytes dl=- nlo=- old=%s new=%s" % (a, gen.hx(old), gen.hx(nw)) for a in "MLP"]


def huge_distinct_cases(ctx):
    """65535 distinct lines on the old side, the same on the new side except that the first two lines are
    two further distinct ones: 65537 distinct tokens, more than a 16-bit numbering can hand out (a wrapped
    id would alias the first old line), with a 4-item edit script.
    Checker only (the unary-number model would need hours); Patience and Myers."""
    old = b"".join(b"l%05d\n" % i for i in range(65535))
    new = b"X\nY\n" + old[14:]
    ctx.count("textdiff:65536-distinct-tokens", 2)
    return ["textdiff tok=lines alg=%s mode=bytes dl=- nlo=- old=%s new=%s" % (a, gen.hx(old), gen.hx(new)) for a in "MP"]


# ------------------------------------------------------------------ C04
def run_C04(ctx):
    rel = SPECS["C04"]["relevant"]
    cases = []
    for o, n in text_pairs(ctx, tiered(ctx, 400, 4000), invalid=False):
        for tok in TOKS_DIFF:
            for alg in ALGS:
                cases.append((tok, alg, "str", None, "-", o, n))
                cases.append((tok, alg, "bytes", None, "-", o, n))
                ctx.count("textdiff:valid-utf8", 2)
    for o, n in text_pairs(ctx, tiered(ctx, 300, 3000), invalid=True):
        for tok in TOKS_DIFF:
            alg = ctx.rng.choice(ALGS)
            cases.append((tok, alg, "bytes", None, "-", o, n))
            ctx.count("textdiff:invalid-utf8-bytes")
    for o, n in [(b"", b""), (b"", b"a"), (b"a", b""), (b"\n", b""), (b"\r\n", b"\n"), (b"a\r", b"a\r\n")]:
        for tok in TOKS_DIFF:
            for alg in ALGS:
                for mode in ("str", "bytes"):
                    cases.append((tok, alg, mode, None, "-", o, n))
    C.evaluate(ctx, "corpus", corpus_lines({"textdiff"}), rel, nontrivial=nontrivial_text)
    tl = textdiff_lines(ctx, cases)
    C.evaluate(ctx, "textdiff", tl, rel, nontrivial=nontrivial_text)
    C.evaluate(ctx, "textdiff-debug-build", debug_subset(ctx, tl, tiered(ctx, 3000, 30000)), rel, dbg=True, nontrivial=nontrivial_text)
    # the structured families around the 100-token switch (repeated heads and tails, one-sided blocks, identical
    # texts): the branch above the switch works on the token numbers of IdentifyDistinct
    C.evaluate(ctx, "textdiff-around-threshold", textdiff_lines(ctx, threshold_text_cases(ctx)), rel,
               nontrivial=nontrivial_text, cap=60)
    C.evaluate(ctx, "textdiff-65536-distinct", huge_distinct_cases(ctx), rel, x=False, cap=300, nontrivial=nontrivial_text)


SPECS["C04"] = dict(
    need_debug=True,
    level=("proof" if __import__("os").path.exists(__import__("os").path.join(C.VERIF, "coq", "Props", "C04.v")) else "translation_validation"),
    manifest=dict(
        text='Machine-checked theorems (Props/C04.v when present; Proofs/TextReconstruct.v): for token lists that partition the texts and any loosely valid op list over the token items, whole-diff iteration never panics, the values of the non-Insert changes concatenate to the old text and of the non-Delete changes to the new text, and indices have the documented shape, composed with the tokenizer theorems (C06) and the pipeline (C02) for lines/words/chars/lines+newlines in str and byte mode; for unicode words / graphemes the tokenization is an oracle replayed from the implementation, of which only losslessness is assumed and checked on every case. The checker runs reconstruct_old/new, change_index_shape and tokens_lossless on the real TextDiff output.',
        note='Trusted: Coq 8.16.1 kernel; extraction with ExtrOcamlBasic only; OCaml driver and Rust harness glue; the tie of the hand-written model to /repo is the correspondence check (differential testing on the generated inputs, rebuilt from the working tree every run), not a proof about the Rust source. usize wrap-around is not modelled.',
        technique='Coq proof (composition C06 + C02 + C13) + correspondence incl. replayed-oracle tokenizers + checker on implementation output',
    ),
    relevant=lambda comp, kv: {"no_panic", "tokens_lossless", "reconstruct_old", "reconstruct_new",
                               "change_index_shape", "perop_same", "ctor_same"},
    run=run_C04,
    generators="textdiff component: random line texts (small line alphabets, LF/CRLF/CR, missing final newline) and "
               "their edits, random symbol strings incl. multi-byte, and in byte mode invalid UTF-8; 5 tokenizers x 3 "
               "algorithms x {str,[u8]}; unicode words / graphemes via the replayed-oracle protocol; every diff is also built "
               "through String / Cow / Vec<u8> inputs and (default configuration) the TextDiff::from_* constructors; a "
               "sample runs against a debug build of the crate",
)


# ------------------------------------------------------------------ C14
def threshold_text_cases(ctx):
    """text-diff cases on both sides of the 100-token switch of TextDiffConfig::diff"""
    cases = []
    # both sides of the 100-token threshold
    sizes = [(99, 99), (100, 100), (100, 101), (101, 100), (101, 3), (3, 101), (250, 240), (99, 101)]
    for so, sn in sizes:
        for rep in range(tiered(ctx, 2, 10)):
            for tok, sep in (("lines", b"\n"), ("words", b" "), ("chars", b""), ("uwords", b" "), ("graphemes", b"")):
                if tok in ("words", "uwords"):
                    # words alternate word / whitespace tokens
                    o = gen.tokens_text(ctx.rng, (so + 1) // 2, b" ")[: None]
                    n = gen.tokens_text(ctx.rng, (sn + 1) // 2, b" ")
                elif tok in ("chars", "graphemes"):
                    o = bytes(ctx.rng.choice(b"abc") for _ in range(so))
                    n = bytes(ctx.rng.choice(b"abc") for _ in range(sn))
                else:
                    o = gen.tokens_text(ctx.rng, so, sep)
                    n = gen.tokens_text(ctx.rng, sn, sep)
                if ctx.rng.random() < 0.5:
                    # near-identical
                    n = o[: len(o) // 2] + n[: 6] + o[len(o) // 2:]
                for alg in ALGS:
                    if alg == "L" and max(so, sn) > 120:
                        continue
                    cases.append((tok, alg, "str", None, ctx.rng.choice(["-", "0", "1"]), o, n))
                    ctx.count("textdiff:around-threshold")
    for rep in range(tiered(ctx, 40, 400)):
        n = ctx.rng.choice([101, 105, 130, 180])
        base = [b"L%d" % i for i in range(n)]
        # a few tokens repeated: once in the shared head and once more in the part that differs
        for _ in range(ctx.rng.randrange(1, 4)):
            base.insert(ctx.rng.randrange(len(base) + 1), base[ctx.rng.randrange(0, 10)])
        o = list(base)
        nw = list(base)
        tail = ctx.rng.randrange(3, 8)
        seg = nw[-tail:]
        ctx.rng.shuffle(seg)
        nw[-tail:] = seg
        if ctx.rng.random() < 0.5:
            nw.insert(len(nw) - ctx.rng.randrange(0, tail), o[0])
        ot = b"".join(x + b"\n" for x in o)
        nt = b"".join(x + b"\n" for x in nw)
        for alg in ALGS:
            cases_u = (("lines", alg, "str", None, "-", ot, nt),)
            cases.extend(cases_u)
            ctx.count("textdiff:mostly-unique-above-threshold")
    # identical texts above the threshold, every tokenizer, every newline_terminated override
    for n in (101, 150):
        for tok, sep in (("lines", b"\n"), ("words", b" "), ("chars", b"")):
            t = gen.tokens_text(ctx.rng, n, sep) if tok != "chars" else bytes(ctx.rng.choice(b"abc") for _ in range(n))
            for nlo in ("-", "0", "1"):
                cases.append((tok, ctx.rng.choice(ALGS), ctx.rng.choice(["str", "bytes"]), None, nlo, t, t))
                ctx.count("textdiff:identical-above-threshold")
    # an insertion in front of a common tail that starts with the inserted block's first token (a block
    # appended after a closing line), with an earlier change: the insertion must end up at its latest position
    for rep in range(tiered(ctx, 30, 300)):
        n = ctx.rng.choice([60, 101, 120, 170])
        body_ = [b"s%d" % ctx.rng.randrange(12) for _ in range(n)]
        k = ctx.rng.randrange(1, 4)
        tail = [b"}"] + [b"t%d" % i for i in range(k)]
        o = body_ + tail
        nw = list(body_)
        nw[ctx.rng.randrange(len(nw) // 2)] = b"changed"
        block = [b"}"] + [b"n%d" % ctx.rng.randrange(4) for _ in range(ctx.rng.randrange(1, 4))]
        nw = nw + (block if ctx.rng.random() < 0.5 else tail[:1] + block[1:]) + tail
        ot = b"".join(x + b"\n" for x in o)
        nt = b"".join(x + b"\n" for x in nw)
        for alg in ALGS:
            cases.append(("lines", alg, ctx.rng.choice(["str", "bytes"]), None, "-", ot, nt))
            ctx.count("textdiff:insertion-before-matching-tail")
    # one text is the other with a block put in front of it, behind it or in its middle (nothing else changed), and
    # the block begins or ends with tokens of the text next to it, so that the change can slide: a shortcut for
    # "pure prepend / pure append" that skips the pipeline would place it differently
    for rep in range(tiered(ctx, 30, 300)):
        n = ctx.rng.choice([40, 101, 110, 160])
        text = [b"u%d" % ctx.rng.randrange(ctx.rng.choice([3, 30, 1000])) for _ in range(n)]
        bl = ctx.rng.randrange(1, 6)
        where = ctx.rng.choice(["front", "front", "back", "middle"])
        if where == "front":
            j = ctx.rng.randrange(1, bl + 1)
            block = text[:j] + [b"new%d" % ctx.rng.randrange(3) for _ in range(bl - j)]
            longer = block + text
        elif where == "back":
            j = ctx.rng.randrange(1, bl + 1)
            block = [b"new%d" % ctx.rng.randrange(3) for _ in range(bl - j)] + text[-j:]
            longer = text + block
        else:
            at = ctx.rng.randrange(1, n)
            block = text[at:at + ctx.rng.randrange(1, 3)] + [b"new0"]
            longer = text[:at] + block + text[at:]
        a = b"".join(x + b"\n" for x in text)
        b = b"".join(x + b"\n" for x in longer)
        if ctx.rng.random() < 0.5:
            a, b = b, a
        for alg in ALGS:
            cases.append(("lines", alg, ctx.rng.choice(["str", "bytes"]), None, "-", a, b))
            ctx.count("textdiff:one-sided-block-%s" % where)
    return cases


def threshold_deadline_cases(ctx):
    """text diffs on both sides of the 100-token switch under a builder deadline that expires at probe 0, 1 or 3:
    identical texts, pure insertions / deletions / appends, empty sides, and the threshold families"""
    out = []
    base = []
    for n in (60, 101, 130):
        lines = [b"l%d" % ctx.rng.randrange(40) for _ in range(n)]
        t = b"".join(x + b"\n" for x in lines)
        k = ctx.rng.randrange(1, n)
        ins = b"".join(b"new%d\n" % i for i in range(ctx.rng.randrange(1, 4)))
        cut = b"".join(x + b"\n" for x in lines[:k])
        rest = b"".join(x + b"\n" for x in lines[k:])
        base += [(t, t), (t, cut + ins + rest), (cut + ins + rest, t), (t, t + ins), (t + ins, t), (ins + t, t),
                 (b"", t), (t, b""), (t, cut + b"changed\n" + rest)]
    for o, n in base:
        for alg in ALGS:
            for dl in (0, 1, 3):
                out.append(("lines", alg, ctx.rng.choice(["str", "bytes"]), dl, "-", o, n, ctx.rng.choice(["deadline", "timeout"])))
                ctx.count("textdiff:deadline-around-threshold")
    th = threshold_text_cases(ctx)
    ctx.rng.shuffle(th)
    for c in th[:tiered(ctx, 60, 600)]:
        out.append(tuple(c[:3]) + (ctx.rng.choice([0, 1, 3]),) + tuple(c[4:7]) + ("deadline",))
        ctx.count("textdiff:deadline-around-threshold")
    return out


def run_C14(ctx):
    rel = SPECS["C14"]["relevant"]
    cases = []
    for o, n in text_pairs(ctx, tiered(ctx, 200, 2000), invalid=False):
        for tok in TOKS_DIFF:
            for alg in ALGS:
                cases.append((tok, alg, ctx.rng.choice(["str", "bytes"]), None, ctx.rng.choice(["-", "0", "1"]), o, n))
                ctx.count("textdiff:small")
    cases.extend(threshold_text_cases(ctx))
    C.evaluate(ctx, "textdiff", textdiff_lines(ctx, cases), rel, nontrivial=nontrivial_text, cap=60)
    idl = []
    for a, b in gen.all_pairs(3, tiered(ctx, 3, 4)):
        for os_, oe in gen.all_ranges(len(a)):
            for ns, ne in gen.all_ranges(len(b)):
                if ctx.rng.random() < tiered(ctx, 0.2, 1.0):
                    w = ctx.rng.choice(["u8", "u16", "u32", "u64"])
                    idl.append("identify w=%s or=%d:%d nr=%d:%d old=%s new=%s" % (w, os_, oe, ns, ne, gen.fmt_list(a), gen.fmt_list(b)))
                    ctx.count("identify:ternary-subranges")
    for _ in range(tiered(ctx, 300, 3000)):
        a, b = gen.structured_pair(ctx.rng, 60)
        r = gen.rand_subranges(ctx.rng, a, b)
        w = ctx.rng.choice(["u8", "u16", "u32", "u64"])
        if w == "u8" and len(set(a + b)) > 250:
            w = "u32"
        idl.append("identify w=%s or=%d:%d nr=%d:%d old=%s new=%s" % (w, r[0], r[1], r[2], r[3], gen.fmt_list(a), gen.fmt_list(b)))
        ctx.count("identify:random")
    # narrow id types on long sides with many repeats (few distinct items): ids must stay dense
    for _ in range(tiered(ctx, 30, 300)):
        n = ctx.rng.choice([256, 257, 300, 600])
        k = ctx.rng.choice([2, 10, 100, 200])
        a = [ctx.rng.randrange(k) for _ in range(n)]
        b = [ctx.rng.randrange(k + 20) for _ in range(ctx.rng.choice([5, 300]))]
        idl.append("identify w=u8 or=0:%d nr=0:%d old=%s new=%s" % (len(a), len(b), gen.fmt_list(a), gen.fmt_list(b)))
        ctx.count("identify:u8-long-sides-with-repeats")
    C.evaluate(ctx, "identify", idl, rel, nontrivial=lambda comp, kv, impl: "oids=-" not in impl)
    C.evaluate(ctx, "textdiff-65536-distinct", huge_distinct_cases(ctx) + huge_swap_cases(ctx), rel, x=False, cap=300, nontrivial=nontrivial_text)


SPECS["C14"] = dict(
    level="proof",
    manifest=dict(
        text='Machine-checked theorems (Props/C14.v): IdentifyDistinct assigns equal numbers exactly to equal items within and across sides, in first-seen order, keeps the ranges, and its result depends only on the equality pattern (closed under the global context); the text diff equals capture_diff on the token slices for BOTH branches of the 100-token switch (uses the standard library axiom functional_extensionality_dep to turn pointwise-equal oracles into equal ones; the pointwise lemma is axiom-free). algorithm() and newline_terminated() are compared on the real code.',
        note='Trusted: Coq 8.16.1 kernel; extraction with ExtrOcamlBasic only; OCaml driver and Rust harness glue; the tie of the hand-written model to /repo is the correspondence check (differential testing on the generated inputs, rebuilt from the working tree every run), not a proof about the Rust source. usize wrap-around is not modelled.',
        technique='Coq proof (first-seen numbering invariant; oracle equality) + correspondence on both sides of the 100-token threshold',
    ),
    relevant=lambda comp, kv: {"no_panic", "ops_eq_tokens_diff", "alg_reported", "newline_flag", "ctor_same", "identify_iff_eq",
                               "identify_ranges", "ops_loose"},
    run=run_C14,
    generators="textdiff component with token counts (99,99) (100,100) (100,101) (101,100) (101,3) (3,101) (250,240) "
               "(99,101) per side for every tokenizer and algorithm, near-identical and unrelated, newline_terminated "
               "override none/true/false, plus small random texts; identify component: every ternary pair up to 3/4 "
               "with sub-ranges and random pairs up to 60 with non-zero offsets for u8/u16/u32/u64",
)


# ------------------------------------------------------------------ C05
def udiff_line(alg, mode, radius, header, hint, via, o, n, repair=0):
    return "udiff alg=%s mode=%s radius=%d header=%d hint=%d via=%s repair=%d old=%s new=%s" % (
        alg, mode, radius, header, hint, via, repair, gen.hx(o), gen.hx(n))


def run_C05(ctx):
    rel = SPECS["C05"]["relevant"]
    lines = []
    pairs = []
    for _ in range(tiered(ctx, 1500, 15000)):
        t, alpha = gen.rand_lines_text(ctx.rng, 10, invalid=False)
        pairs.append((t, gen.edit_lines_text(ctx.rng, t, alpha), False))
    for _ in range(tiered(ctx, 500, 5000)):
        t, alpha = gen.rand_lines_text(ctx.rng, 8, invalid=True)
        pairs.append((t, gen.edit_lines_text(ctx.rng, t, alpha), True))
    pairs += [(b"", b"", False), (b"a", b"a", False), (b"a\n", b"a", False), (b"a", b"a\n", False), (b"", b"a", False),
              (b"a\nb\n", b"", False), (b"\x18\n\n", b"\n\n\r", False), (b"b\na\n", b"a\na\n", False)]
    for o, n, inv in pairs:
        alg = ctx.rng.choice(ALGS)
        radius = ctx.rng.choice([0, 0, 1, 2, 3, 5])
        header = ctx.rng.randrange(2)
        hint = 1 if ctx.rng.random() < 0.8 else 0
        if not inv and is_valid_utf8(o) and is_valid_utf8(n):
            for via in ("display", "writer", "hunks"):
                lines.append(udiff_line(alg, "str", radius, header, hint, via, o, n))
            lines.append(udiff_line(alg, "str", radius, header, 1, "fn", o, n))
            ctx.count("udiff:str", 4)
        for via in ("display", "writer", "hunks", "writer1"):
            lines.append(udiff_line(alg, "bytes", radius, header, hint, via, o, n))
        ctx.count("udiff:bytes", 4)
    C.evaluate(ctx, "corpus", corpus_lines({"udiff"}), rel, nontrivial=lambda comp, kv, impl: impl != "out=-")
    C.evaluate(ctx, "udiff", lines, rel, nontrivial=lambda comp, kv, impl: impl.split(" ")[0] != "out=-")
    # hundreds of small hunks: every k-th line of a few hundred changed, deleted or followed by an insertion
    many = []
    for rep in range(tiered(ctx, 4, 20)):
        n = ctx.rng.choice([150, 300, 600])
        k = ctx.rng.choice([4, 7, 10])
        o_lines = [b"line %d\n" % i for i in range(n)]
        n_lines = []
        for i, l in enumerate(o_lines):
            if i % k == 0:
                r = ctx.rng.random()
                if r < 0.4:
                    n_lines.append(b"changed %d\n" % i)
                elif r < 0.7:
                    n_lines.extend([l, b"added %d\n" % i])
                # else: deleted
            else:
                n_lines.append(l)
        o, n2 = b"".join(o_lines), b"".join(n_lines)
        if ctx.rng.random() < 0.5:
            n2 = n2[:-1]
        alg = ctx.rng.choice(ALGS)
        for via in ("display", "writer", "hunks"):
            many.append(udiff_line(alg, ctx.rng.choice(["str", "bytes"]), ctx.rng.choice([0, 1, 2, 3]), ctx.rng.randrange(2), 1, via, o, n2))
            ctx.count("udiff:hundreds-of-hunks")
    C.evaluate(ctx, "udiff-many-hunks", many, rel, cap=300, nontrivial=lambda comp, kv, impl: impl.split(" ")[0] != "out=-")
    # very long lines (around typical buffer sizes), with and without terminator, inside hunks.  The unary-number
    # model is cubic in the line length: model comparison up to 4096 bytes, verified parser + applier beyond
    big_x, big_k = [], []
    for L in tiered(ctx, [2048, 8192, 8193], [1023, 1024, 4095, 4096, 8191, 8192, 8193]):
        long1 = bytes(97 + (i * 7) % 26 for i in range(L - 1))
        long2 = bytes(97 + (i * 11) % 26 for i in range(L - 1))
        for o, n in ((b"a\nb\n" + long1 + b"\nc\n", b"a\nB\n" + long1 + b"\nc\nd\n"),
                     (b"a\n" + long1 + b"\nz\n", b"a\n" + long2 + b"\nz"),
                     (b"x\n" + long1, b"x\n" + long2 + b"\n"),
                     (long1 + b"\n", long1 + b"\n" + long2 + b"\n")):
            alg = ctx.rng.choice(ALGS)
            tgt = big_x if L <= 4096 else big_k
            vias = ("display", "writer", "hunks", "writer1")
            if ctx.tier == "quick":
                vias = (ctx.rng.choice(["writer", "hunks"]), ctx.rng.choice(["display", "writer1"]))
            for via in vias:
                tgt.append(udiff_line(alg, "bytes", ctx.rng.choice([0, 1, 3]), ctx.rng.randrange(2), 1, via, o, n))
            if ctx.tier != "quick":
                tgt.append(udiff_line(alg, "str", 3, 1, 1, "writer", o, n))
            ctx.count("udiff:very-long-lines", len(vias))
    nt = lambda comp, kv, impl: impl.split(" ")[0] != "out=-"
    C.evaluate(ctx, "udiff-long-lines", big_x, rel, cap=300, nontrivial=nt)
    # each of these cases needs several gigabytes in the unary-number checker: at most four at a time
    C.evaluate(ctx, "udiff-longer-lines", big_k, rel, x=False, cap=600, nontrivial=nt, procs=4)


SPECS["C05"] = dict(
    level="proof",
    manifest=dict(
        text="Machine-checked theorems (Props/C05.v, closed under the global context): for index-exact alternating line ops the model of the renderer equals an independent printer of hunk records (render = print o model_hunks, no panic), those hunk records pass the independent strict applier check_patch (counts = body counts, shown starts = true positions, increasing non-overlapping, every context/'-' line matches, result = new text, every hunk contains a change with <= radius context at the edges and deletions before insertions), empty output iff no change, file header once and only with a hunk, the no-newline marker exactly on lines lacking one, the writer emits line bytes unchanged and Display = lossy(writer). The OpsExact premise is exactly what known finding F5 breaks; failing cases are attributed by the cfg(similar_verif) swap-repair switch. The real output is parsed by the extracted parse_udiff (Spec/UdiffParse.v), proved sound for both hint settings (c05_parse_sound: whatever it accepts prints back to exactly the bytes; counts, canonical numbers, terminators and the marker are enforced) and complete on the renderer's image (c05_parse_print, c05_text_render_parse_applies), and fed to the extracted check_patch (c05_parse_check_meaning); with the hint off the normalised form is checked (c05_render_parse_applies_nohint).",
        note='Trusted: Coq 8.16.1 kernel; extraction with ExtrOcamlBasic only; OCaml driver and Rust harness glue; the tie of the hand-written model to /repo is the correspondence check (differential testing on the generated inputs, rebuilt from the working tree every run), not a proof about the Rust source. usize wrap-around is not modelled.',
        technique='Coq proof (renderer = printer of hunks; hunks apply strictly) + correspondence byte-for-byte + extracted verified parser + strict applier on the output bytes of the implementation',
    ),
    relevant=lambda comp, kv: {"no_panic", "udiff_empty_iff_equal", "display_eq_lossy_writer", "display_eq_writer",
                               "udiff_wellformed", "udiff_applies"},
    run=run_C05,
    generators="udiff component: random line texts over small line alphabets (LF/CRLF/CR, missing final newline, empty) "
               "and their edits, in byte mode also invalid UTF-8; algorithm, radius in {0,1,2,3,5}, header on/off, "
               "hint on/off; rendered through Display, UnifiedDiff::to_writer, per-hunk to_writer and "
               "udiff::unified_diff; lines of 2048, 8192, 8193 (thorough: 1023..8193) bytes inside hunks.  Every UnifiedDiff value is first rendered, iterated and written with other settings and then configured as asked.  The rendered text is parsed (strictly) and applied by the extracted check_patch",
)


# ------------------------------------------------------------------ C16
def run_C16(ctx):
    rel = SPECS["C16"]["relevant"]
    pairs = []
    for _ in range(tiered(ctx, 1500, 15000)):
        t, alpha = gen.rand_lines_text(ctx.rng, 7, invalid=False)
        pairs.append((t, gen.edit_lines_text(ctx.rng, t, alpha), "str" if ctx.rng.random() < 0.5 else "bytes"))
    for _ in range(tiered(ctx, 300, 3000)):
        t, alpha = gen.rand_lines_text(ctx.rng, 6, invalid=True)
        pairs.append((t, gen.edit_lines_text(ctx.rng, t, alpha), "bytes"))
    # long lines: Replace blocks with many word tokens (more than 100 on a side), different counts on the two sides
    for _ in range(tiered(ctx, 40, 400)):
        nw = ctx.rng.choice([30, 49, 51, 60, 90, 130])
        words = [ctx.rng.choice(gen.WORDS) for _ in range(nw)]
        l1 = b" ".join(words)
        w2 = list(words)
        for _k in range(ctx.rng.randrange(1, 4)):
            r = ctx.rng.random()
            pos = ctx.rng.randrange(len(w2))
            if r < 0.4:
                w2[pos] = b"changed"
            elif r < 0.7:
                w2.insert(pos, b"extra")
            elif len(w2) > 2:
                del w2[pos]
        l2 = b" ".join(w2)
        pre = ctx.rng.choice([b"", b"head\n"])
        post = ctx.rng.choice([b"\n", b"\ntail\n", b""])
        o, n = pre + l1 + post, pre + l2 + post
        if ctx.rng.random() < 0.3:
            n = pre + l2 + b"\n" + l1[: len(l1) // 2] + post      # more lines on one side
        pairs.append((o, n, "str" if ctx.rng.random() < 0.5 else "bytes"))
        ctx.count("inline:long-lines")
    # the word oracle for every line of every text (MultiLookup uses tokenize_unicode_words)
    import re as _re
    need = {"str": set(), "bytes": set()}
    split = lambda t: _re.findall(rb"[^\r\n]*(?:\r\n|\r|\n)|[^\r\n]+", t)
    for o, n, mode in pairs:
        need[mode].update(split(o))
        need[mode].update(split(n))
    orc = {m: oracle_tokens(ctx, "uwords", m, v) for m, v in need.items() if v}
    lines = []
    for o, n, mode in pairs:
        ent = []
        ok = True
        for l in sorted(set(split(o) + split(n))):
            b = orc[mode].get(l)
            if b is None or "X" in b:
                ok = False
                break
            ent.append("%s~%s" % (gen.hx(l), b.replace(",", ".")))
        if not ok:
            ctx.count("inline:skipped-lossy-word-oracle")
            continue
        alg = ctx.rng.choice(ALGS)
        idl = ctx.rng.choice(["-", "-", "0"])
        nlo = ctx.rng.choice(["", "", " nlo=0", " nlo=1"])      # the builder's newline_terminated override must not matter
        lines.append("inline alg=%s mode=%s idl=%s old=%s new=%s uw=%s%s" % (alg, mode, idl, gen.hx(o), gen.hx(n), ";".join(ent) or "-", nlo))
        ctx.count("inline:cases")
    C.evaluate(ctx, "inline", lines, rel, nontrivial=lambda comp, kv, impl: "1." in impl)


SPECS["C16"] = dict(
    level="proof",
    manifest=dict(
        text="Machine-checked theorems (Props/C16.v, closed under the global context), parametric in the word tokenizer (an oracle assumed only to be a lossless partition, replayed from the implementation) and in the second-level diff (assumed loosely valid, proved in the pipeline): non-Replace ops expand to the plain changes with nothing emphasised; for Replace ops the inline changes have the same tags and indices as the plain expansion, each change's segments concatenate to its line, emphasised segments contain no CR/LF; MultiLookup and get_original_slices specs. Checked on the real output for every op incl. expired inline deadline.",
        note='Trusted: Coq 8.16.1 kernel; extraction with ExtrOcamlBasic only; OCaml driver and Rust harness glue; the tie of the hand-written model to /repo is the correspondence check (differential testing on the generated inputs, rebuilt from the working tree every run), not a proof about the Rust source. usize wrap-around is not modelled.',
        technique='Coq proof parametric in replayed oracles + correspondence + checker on implementation output',
    ),
    relevant=lambda comp, kv: {"no_panic", "inline_default_entry", "inline_same_shape", "inline_concat_line", "inline_emph_only_replace",
                               "inline_no_newline_emph", "inline_missing_newline"},
    run=run_C16,
    generators="inline component: random line texts and their edits (one word changed, lines replaced, mixed "
               "terminators, missing final newline, multi-byte words; invalid UTF-8 in byte mode), every op of the line "
               "diff expanded by iter_inline_changes_deadline with the second-level deadline none / expired at probe 0; "
               "the unicode-word segmentation of every line is replayed from the implementation (oracle)",
)


# ------------------------------------------------------------------ C17
def run_C17(ctx):
    rel = SPECS["C17"]["relevant"]
    cases = []
    pairs = text_pairs(ctx, tiered(ctx, 500, 5000), invalid=False) + [(b"", b""), (b"a", b""), (b"", b"a")]
    for o, n in pairs:
        for tok in ("chars", "words", "uwords", "graphemes", "lines"):
            for alg in ALGS:
                cases.append("remap tok=%s alg=%s mode=str old=%s new=%s" % (tok, alg, gen.hx(o), gen.hx(n)))
                cases.append("remap tok=%s alg=%s mode=bytes old=%s new=%s" % (tok, alg, gen.hx(o), gen.hx(n)))
                ctx.count("remap:valid", 2)
    for o, n in text_pairs(ctx, tiered(ctx, 300, 3000), invalid=True):
        for tok in ("chars", "words", "uwords", "graphemes", "lines"):
            cases.append("remap tok=%s alg=%s mode=bytes old=%s new=%s" % (tok, ctx.rng.choice(ALGS), gen.hx(o), gen.hx(n)))
            ctx.count("remap:invalid-bytes")
    # the modelled tokenizers are compared with the model; oracle ones only through the checker
    C.evaluate(ctx, "remap-modelled", [c for c in cases if " tok=uwords" not in c and " tok=graphemes" not in c], rel,
               nontrivial=nontrivial_text)
    C.evaluate(ctx, "remap-oracle", [c for c in cases if " tok=uwords" in c or " tok=graphemes" in c], rel,
               nontrivial=nontrivial_text, x=False)
    sl = []
    for _ in range(tiered(ctx, 1000, 10000)):
        a, b = gen.structured_pair(ctx.rng, 20)
        sl.append("slices alg=%s old=%s new=%s" % (ctx.rng.choice(ALGS), gen.fmt_list(a), gen.fmt_list(b)))
        ctx.count("slices:diff_slices")
    sl.append("slices alg=L old=- new=-")
    C.evaluate(ctx, "slices", sl, rel, nontrivial=nontrivial_text)


SPECS["C17"] = dict(
    level="proof",
    manifest=dict(
        text="Machine-checked theorems (Props/C17.v, closed under the global context): the remapper's cumulative ranges are the token boundaries; a non-empty token range remaps to the exact substring = concatenation of its tokens; for loosely valid non-empty ops the slices have the tags of slice-wise expansion, reconstruct both texts, are never empty, never panic; an empty op panics only at position 0 or at the end (so LCS's former zero-length op was the C17 defect). Helpers checked on the real code for all tokenizers incl. oracle ones.",
        note='Trusted: Coq 8.16.1 kernel; extraction with ExtrOcamlBasic only; OCaml driver and Rust harness glue; the tie of the hand-written model to /repo is the correspondence check (differential testing on the generated inputs, rebuilt from the working tree every run), not a proof about the Rust source. usize wrap-around is not modelled.',
        technique='Coq proof + correspondence + checker on implementation output (exact substring offsets by pointer arithmetic)',
    ),
    relevant=lambda comp, kv: {"no_panic", "remap_reconstruct_old", "remap_reconstruct_new", "remap_nonempty",
                               "remapper_same", "remap_exact_substrings"},
    run=run_C17,
    generators="remap component: utils::diff_chars/words/unicode_words/graphemes/lines and an explicit "
               "TextDiffRemapper over the same diff (from_text_diff, new, slice_old/slice_new, and over separate equal copies of the texts), random texts incl. empty and multi-byte, str and bytes (invalid "
               "UTF-8 in byte mode), 3 algorithms; slices component: utils::diff_slices on structured pairs",
)


# ------------------------------------------------------------------ C20
def run_C20(ctx):
    rel = SPECS["C20"]["relevant"]
    lines = []
    for a, b in gen.all_pairs(2, 3):
        for alg in ALGS:
            lines.append("repeat alg=%s or=0:%d nr=0:%d reps=5 old=%s new=%s" % (alg, len(a), len(b), gen.fmt_list(a), gen.fmt_list(b)))
            ctx.count("repeat:binary")
    for _ in range(tiered(ctx, 600, 6000)):
        a, b = gen.structured_pair(ctx.rng, 40)
        r = gen.rand_subranges(ctx.rng, a, b)
        lines.append("repeat alg=%s or=%d:%d nr=%d:%d reps=5 old=%s new=%s" % (ctx.rng.choice(ALGS), r[0], r[1], r[2], r[3], gen.fmt_list(a), gen.fmt_list(b)))
        ctx.count("repeat:random (x20 executions in 4 threads, 4 relabellings)")
    # one sequence diffed against itself over different sub-ranges (the harness passes the same object twice)
    for a in [list(t) for n in range(0, 5) for t in __import__("itertools").product(range(2), repeat=n)]:
        for os_, oe in gen.all_ranges(len(a)):
            for ns, ne in gen.all_ranges(len(a)):
                lines.append("repeat alg=%s or=%d:%d nr=%d:%d reps=1 old=%s new=%s" % (ctx.rng.choice(ALGS), os_, oe, ns, ne, gen.fmt_list(a), gen.fmt_list(a)))
                ctx.count("repeat:self-diff-subranges")
    for _ in range(tiered(ctx, 150, 1500)):
        a = gen.rand_seq(ctx.rng, ctx.rng.randrange(1, 30), ctx.rng.choice([2, 3, 10]))
        r = gen.rand_subranges(ctx.rng, a, a)
        lines.append("repeat alg=%s or=%d:%d nr=%d:%d reps=1 old=%s new=%s" % (ctx.rng.choice(ALGS), r[0], r[1], r[2], r[3], gen.fmt_list(a), gen.fmt_list(a)))
        ctx.count("repeat:self-diff-subranges")
    # full ranges just above 100 items (size switches of the slice entry points), small and large alphabets
    for _ in range(tiered(ctx, 60, 600)):
        n = ctx.rng.choice([101, 120, 160])
        a = gen.rand_seq(ctx.rng, n, ctx.rng.choice([3, 40, 1000]))
        b = gen.edit_seq(ctx.rng, a, ctx.rng.randrange(1, 12), 1000)
        lines.append("repeat alg=%s or=0:%d nr=0:%d reps=2 old=%s new=%s" % (ctx.rng.choice(ALGS), len(a), len(b), gen.fmt_list(a), gen.fmt_list(b)))
        ctx.count("repeat:full-range-above-100-items")
    C.evaluate(ctx, "repeat", lines, rel)
    big = []
    for n in tiered(ctx, [700, 1100], [300, 700, 1100, 1600]):
        X = list(range(0, n))
        Y = list(range(n, 2 * n))
        for a, b in ((X + Y, Y + X), (X + Y, Y + [5] + X), (X + [7, 7] + Y, Y + X)):
            for alg in "PM":
                big.append("repeat alg=%s or=0:%d nr=0:%d reps=3 old=%s new=%s" % (alg, len(a), len(b), gen.fmt_list(a), gen.fmt_list(b)))
                ctx.count("repeat:block-swap-of-%d-unique-items" % n)
    C.evaluate(ctx, "repeat-large", big, rel, x=False, cap=120)
    cases = []
    idx = []
    for o, n in text_pairs(ctx, tiered(ctx, 400, 4000), invalid=False):
        for tok in ("lines", "words", "chars"):
            alg = ctx.rng.choice(ALGS)
            idx.append(len(cases))
            cases.append((tok, alg, "str", None, "-", o, n))
            cases.append((tok, alg, "bytes", None, "-", o, n))
            ctx.count("textdiff:str-vs-bytes", 2)
    tl = textdiff_lines(ctx, cases)
    impl, _, _ = C.evaluate(ctx, "textdiff", tl, rel, nontrivial=nontrivial_text)
    for i in idx:
        a = impl[i].split(" ")[0]
        b = impl[i + 1].split(" ")[0]
        if a != b:
            ctx.failures.append(dict(batch="str-vs-bytes", case=tl[i], impl=impl[i] + " / bytes: " + impl[i + 1], model=None,
                                     clauses=["str_bytes_same_ops"], dbg=False))


SPECS["C20"] = dict(
    level="proof",
    manifest=dict(
        text="Machine-checked theorems (Props/C20.v): the model's results depend on the items only through the three comparison oracles; relabelling by any injective function leaves capture_diff, the raw trace, IdentifyDistinct and text diffs unchanged (uses functional_extensionality_dep; the pointwise oracle lemmas are axiom-free); equal token lists give equal text diffs (with C06: str = bytes). That the real code agrees with this one function on every execution is exercised, not proved: 12-20 executions in 4 threads with fresh hasher seeds under 4 relabellings and with item types whose legal Hash is coarse or constant, through capture_diff, capture_diff_slices and utils::diff_slices, incl. full ranges just above 100 items and block swaps of >1024 unique items.",
        note='Trusted: Coq 8.16.1 kernel; extraction with ExtrOcamlBasic only; OCaml driver and Rust harness glue; the tie of the hand-written model to /repo is the correspondence check (differential testing on the generated inputs, rebuilt from the working tree every run), not a proof about the Rust source. usize wrap-around is not modelled.',
        technique='Coq proof of relabelling invariance + repeated/threaded/relabelled execution of the real code against the model',
    ),
    relevant=lambda comp, kv: {"no_panic", "deterministic", "str_bytes_same_ops"},
    run=run_C20,
    generators="repeat component: capture_diff of every binary pair up to 3 and random structured pairs with "
               "sub-ranges, and tied block swaps of 700-1600 unique items (checker only, no model run), executed 12-20 times in 4 threads (fresh RandomState per HashMap) under 4 relabellings "
               "(identity, order preserving, order reversing, hash scrambling), all results identical to each other and "
               "to the model; item types with coarse / constant Hash, a new-side item type that differs from the old side's and hashes differently, capture_diff_slices / utils::diff_slices / algorithms::diff_slices, self-diffs with the same object passed twice; textdiff component: str vs the same bytes as [u8] for lines/words/chars",
)


# ------------------------------------------------------------------ C15
def run_C15(ctx):
    rel = SPECS["C15"]["relevant"]
    lines = []
    seen = set()
    for a, b in gen.all_pairs(4, tiered(ctx, 4, 5)):
        key = gen.canon_pair(a, b)
        if key in seen:
            continue
        seen.add(key)
        lines.append(gen.raw_line("P", a, b))
        lines.append(gen.capture_line("P", a, b))
        ctx.count("patience:alphabet-4-exhaustive", 2)
    for _ in range(tiered(ctx, 3000, 30000)):
        k = ctx.rng.randrange(5)
        n = ctx.rng.randrange(0, 30)
        if k == 0:      # unique-rich with shuffled blocks
            a = list(range(n))
            b = gen.block_move(ctx.rng, gen.block_move(ctx.rng, a))
        elif k == 1:    # duplicates that are unique on one side only
            a = list(range(n))
            b = list(a)
            for _ in range(ctx.rng.randrange(1, 4)):
                if a:
                    b.insert(ctx.rng.randrange(len(b) + 1), ctx.rng.choice(a))
            ctx.rng.shuffle(b) if ctx.rng.random() < 0.3 else None
        elif k == 2:    # odd repeat counts (3x) crossing a genuine anchor
            a = [ctx.rng.randrange(4) for _ in range(n)]
            b = [ctx.rng.randrange(4) for _ in range(ctx.rng.randrange(0, 30))]
            if a:
                a.insert(ctx.rng.randrange(len(a) + 1), 99)
                b.insert(ctx.rng.randrange(len(b) + 1), 99)
        else:
            a, b = gen.structured_pair(ctx.rng, 30)
        r = gen.rand_subranges(ctx.rng, a, b) if ctx.rng.random() < 0.3 else None
        lines.append(gen.raw_line("P", a, b, r))
        lines.append(gen.capture_line("P", a, b, r))
        ctx.count("patience:random", 2)
    # runs of three consecutive anchors A .. M .. B with short stretches of two repeated items between them, every
    # combination on both sides (an interior anchor that is "equally far" on both sides must still be a split point)
    import itertools
    stretches = [list(t) for k in range(0, 3) for t in itertools.product([1, 2], repeat=k)]
    fam = []
    for s1 in stretches:
        for s2 in stretches:
            for t1 in stretches:
                for t2 in stretches:
                    fam.append(([7] + s1 + [8] + s2 + [9], [7] + t1 + [8] + t2 + [9]))
    # and with the repeated item recurring behind the last anchor / in front of the first
    for s1, s2, t1, t2 in [ctx.rng.sample(stretches, 4) + [] for _ in range(tiered(ctx, 300, 3000))]:
        ex = [ctx.rng.choice([1, 2]) for _ in range(ctx.rng.randrange(1, 3))]
        fam.append(([7] + s1 + [8] + s2 + [9], [7] + t1 + [8] + t2 + ex + [9]))
        fam.append((ex + [7] + s1 + [8] + s2 + [9], [7] + t1 + [8] + t2 + [9] + ex))
    if ctx.tier == "quick":
        ctx.rng.shuffle(fam)
        fam = fam[:1500]
    for a, b in fam:
        lines.append(gen.raw_line("P", a, b))
        lines.append(gen.capture_line("P", a, b))
        ctx.count("patience:three-anchors-with-repeated-stretches", 2)
    C.evaluate(ctx, "corpus", corpus_lines({"raw", "capture"}), rel)
    C.evaluate(ctx, "patience", lines, rel)
    # many unique items whose anchors come in particular ORDERS: reversed (longest chain 1), zig-zag, nearly sorted
    # with displaced items, rotated, block swaps, riffles; plus repeated filler between them.  Checker only (the
    # chain length comes from patience sorting in the driver, not from the unary-number DP)
    big = []
    for n in tiered(ctx, [400, 3000], [400, 3000, 20000]):
        base = list(range(n))
        perms = [list(reversed(base)),
                 [x for p in zip(base[: n // 2], reversed(base[n // 2:])) for x in p],
                 base[n // 3:] + base[: n // 3],
                 base[1::2] + base[0::2]]
        near = list(base)
        for _ in range(10):
            i, j = ctx.rng.randrange(n), ctx.rng.randrange(n)
            near.insert(j, near.pop(i))
        perms.append(near)
        blocks = [base[i:i + 37] for i in range(0, n, 37)]
        ctx.rng.shuffle(blocks)
        perms.append([x for bl in blocks for x in bl])
        for pnew in perms:
            a, b = list(base), list(pnew)
            if ctx.rng.random() < 0.5:      # repeated filler items between the unique ones
                for _ in range(n // 10):
                    a.insert(ctx.rng.randrange(len(a) + 1), n + ctx.rng.randrange(3))
                    b.insert(ctx.rng.randrange(len(b) + 1), n + ctx.rng.randrange(3))
            big.append(gen.raw_line("P", a, b))
            ctx.count("patience:anchor-orders-%d" % n)
    # more than 2^14 rounds over the unique lists: 17000 unique items reversed, with a repeated item at both ends
    n = 17000
    big.append(gen.raw_line("P", [0, 0] + list(range(1, n + 1)), list(range(n, 0, -1)) + [0, 0]))
    ctx.count("patience:anchor-orders-17000-reversed")
    C.evaluate(ctx, "patience-anchor-orders", big, rel, x=False, cap=300)


SPECS["C15"] = dict(
    level="proof",
    manifest=dict(
        text='Machine-checked theorems (Props/C15.v, closed under the global context): unique returns, ascending, exactly the indices whose item occurs once (no hash order); without deadline every anchor pair chosen on the unique lists is reported inside an Equal that pairs exactly those two positions, and the number of anchor pairs is the LCS length of the unique lists (Myers minimality one level down, via a simulation showing the outer run is independent of the hook). The checker counts unique common items reported Equal with their counterpart against the extracted lcs_len.',
        note='Trusted: Coq 8.16.1 kernel; extraction with ExtrOcamlBasic only; OCaml driver and Rust harness glue; the tie of the hand-written model to /repo is the correspondence check (differential testing on the generated inputs, rebuilt from the working tree every run), not a proof about the Rust source. usize wrap-around is not modelled.',
        technique='Coq proof (Patience hook invariant, world simulation, Myers minimality) + verified-optimum checker on implementation output',
    ),
    relevant=lambda comp, kv: {"no_panic", "anchors_max", "raw_valid", "ops_loose"},
    run=run_C15,
    generators="raw and capture components with algorithm Patience, no deadline: every pair over a 4-letter alphabet up "
               "to length 4/5 modulo relabelling; random unique-rich sequences with shuffled blocks, items unique on one "
               "side only, items repeated an odd number of times next to a genuine anchor, structured pairs, sub-ranges; "
               "400 / 3000 (thorough: 20000) unique items in reversed, zig-zag, rotated, riffled, nearly sorted and "
               "block-shuffled order (chain length by patience sorting in the driver)",
)


# ------------------------------------------------------------------ C18
def f32_bits(x):
    import struct
    return struct.unpack("<I", struct.pack("<f", x))[0]


def lcs_len_py(a, b):
    prev = [0] * (len(b) + 1)
    for x in a:
        cur = [0]
        for j, y in enumerate(b):
            cur.append(prev[j] + 1 if x == y else max(prev[j + 1], cur[j]))
        prev = cur
    return prev[-1]


def run_C18(ctx):
    rel = SPECS["C18"]["relevant"]
    lines = []
    alpha = ["a", "b", "c"]
    words3 = [""] + ["".join(t) for n in (1, 2, 3) for t in __import__("itertools").product(alpha, repeat=n)]
    # "e\u0301", CR LF, a ZWJ sequence and a flag are several code points each but one grapheme cluster
    multi = ["é", "\U0001F600", "世", "x", "e\u0301", "\r\n", "\U0001F468\u200D\U0001F469", "\U0001F1E9\U0001F1EA", "\u0301"]
    for _ in range(tiered(ctx, 1500, 15000)):
        k = ctx.rng.randrange(3)
        if k == 0:
            word = ctx.rng.choice(words3)
            cands = [ctx.rng.choice(words3) for _ in range(ctx.rng.randrange(0, 12))]
        elif k == 1:   # mixed-width characters: byte length != char count
            mk = lambda: "".join(ctx.rng.choice(alpha + multi) for _ in range(ctx.rng.randrange(0, 9)))
            word = mk()
            cands = [mk() for _ in range(ctx.rng.randrange(0, 10))]
            if ctx.rng.random() < 0.5 and word:
                cands.append(word[: len(word) // 2] + "".join(ctx.rng.choice(multi) for _ in range(2)))
                cands.append(word + "\U0001F600\U0001F600")
        else:          # near misses of one long word, duplicates
            word = "".join(ctx.rng.choice("abcdefgh") for _ in range(ctx.rng.randrange(3, 14)))
            cands = []
            for _ in range(ctx.rng.randrange(1, 10)):
                w = list(word)
                for _ in range(ctx.rng.randrange(0, 4)):
                    if w and ctx.rng.random() < 0.5:
                        del w[ctx.rng.randrange(len(w))]
                    else:
                        w.insert(ctx.rng.randrange(len(w) + 1), ctx.rng.choice("abcdefghxyzé"))
                cands.append("".join(w))
            if cands and ctx.rng.random() < 0.5:
                cands.append(ctx.rng.choice(cands))
            # prefixes and extensions of the word (the harness makes them sub-slices of one buffer with the word)
            if word and ctx.rng.random() < 0.4:
                for _ in range(ctx.rng.randrange(1, 4)):
                    cands.append(word[:ctx.rng.randrange(0, len(word) + 1)])
                if ctx.rng.random() < 0.5:
                    cands.append(word + ctx.rng.choice(["x", "ab", "é"]))
                ctx.rng.shuffle(cands)
        # cutoffs: 0, 1, and every ratio value hit exactly, its successor and predecessor
        cut = {f32_bits(0.0), f32_bits(1.0), f32_bits(0.6), f32_bits(0.5)}
        for c in cands:
            tot = len(word) + len(c)
            r = 1.0 if tot == 0 else 2.0 * lcs_len_py(word, c) / tot
            b = f32_bits(r)
            cut.update({b, b + 1, max(0, b - 1)})
        for cb in ctx.rng.sample(sorted(cut), min(len(cut), 4)):
            # n: none, one, a few, more than there are candidates, and the "all of them" sentinels
            n = ctx.rng.choice([0, 1, 3, 100, 100, 2 ** 32, 2 ** 63, 2 ** 64 - 1])
            lines.append("close word=%s cands=%s n=%d cutoff=%d" % (
                gen.hx(word.encode()), "|".join((gen.hx(c.encode()) if c else "e") for c in cands) or "-", n, cb))
            ctx.count("close:cases")
    # tiny ratios (below 2^-9, where neighbouring f32 values share a heap key) with cutoffs one ulp around them:
    # a short word against long candidates that share its characters in the wrong order
    for L in (300, 1100, 2500):
        for word, cand in (("ab", "b" * L + "a"), ("abc", "c" * L + "ba"), ("ab", "a" + "x" * L + "b")):
            tot = len(word) + len(cand)
            b = f32_bits(2.0 * lcs_len_py(word, cand) / tot)
            for cb in (b, b + 1, max(0, b - 1), b + 2):
                lines.append("close word=%s cands=%s|%s n=5 cutoff=%d" % (gen.hx(word.encode()), gen.hx(cand.encode()), gen.hx(b"zz"), cb))
                ctx.count("close:tiny-ratios")
    # more than 100 characters with one character that occurs once on each side but far from its counterpart
    for k in (40, 60, 150):
        w = "X" + "ab" * k
        for cand in ("ab" * k + "X", "ab" * k, "Xab" * (k // 2)):
            tot = len(w) + len(cand)
            b = f32_bits(2.0 * lcs_len_py(w, cand) / tot)
            for cb in (b, b + 1, f32_bits(0.5)):
                lines.append("close word=%s cands=%s|%s n=%d cutoff=%d" % (gen.hx(w.encode()), gen.hx(cand.encode()), gen.hx(b"ab"), ctx.rng.choice([1, 2]), cb))
                ctx.count("close:long-words-misplaced-unique-char")
    # distinct ratios in the same 10^-6 bucket at ordinary magnitudes (a coarser ranking key would tie them): word a^700,
    # candidates a^L b^(len-L) with ratio 2L/(700+len); the lexicographically smaller candidate has the lower ratio
    near = []
    W = 700
    for L1 in range(360, 640, 3):
        for n1 in range(max(L1 + 1, 600), 900, 7):
            r1 = 2.0 * L1 / (W + n1)
            for L2 in range(L1 + 1, L1 + 40):
                # candidate 2 starts with more a's, so it sorts before candidate 1; give it the slightly lower ratio
                n2 = int(round(2.0 * L2 / r1)) - W
                for n2_ in (n2, n2 + 1):
                    if n2_ <= L2 or n2_ > 900:
                        continue
                    r2 = 2.0 * L2 / (W + n2_)
                    if 0 < r1 - r2 and int(r1 * 1e6) == int(r2 * 1e6) and int(r1 * 1e7) != int(r2 * 1e7):
                        near.append((L1, n1, L2, n2_))
    ctx.rng.shuffle(near)
    for L1, n1, L2, n2 in near[:tiered(ctx, 4, 20)]:
        c1 = "a" * L1 + "b" * (n1 - L1)
        c2 = "a" * L2 + "b" * (n2 - L2)
        for nn in (1, 2):
            lines.append("close word=%s cands=%s|%s n=%d cutoff=%d" % (gen.hx(b"a" * W), gen.hx(c2.encode()), gen.hx(c1.encode()), nn, f32_bits(0.5)))
            ctx.count("close:near-ties-at-ordinary-ratios")
    lines.append("close word=%s cands=%s n=3 cutoff=%d" % (gen.hx(b"appel"), "|".join(gen.hx(x) for x in [b"ape", b"apple", b"peach", b"puppy"]), f32_bits(0.6)))
    # the witness of known finding F9 (two distinct ratios below 2^-9 with the same u32 key)
    c1 = b"a" + b"b" * 131071
    c2 = b"aa" + b"b" * 131071
    lines.append("close word=61 cands=%s|%s n=2 cutoff=0" % (gen.hx(c1), gen.hx(c2)))
    C.evaluate(ctx, "close", lines, rel, nontrivial=lambda comp, kv, impl: "res=-" not in impl)


SPECS["C18"] = dict(
    level=("proof" if __import__("os").path.exists(__import__("os").path.join(C.VERIF, "coq", "Props", "C18.v")) else "translation_validation"),
    manifest=dict(
        text="Machine-checked theorems (Props/C18.v): for ANY monotone rounding of the exact ratio and any monotone heap key, the two pre-filters never discard a candidate that meets the cutoff (their rational bounds dominate the ratio) and the result is the first n of the qualifying candidates sorted by decreasing key, ties lexicographic, whatever the heap does (closed under the global context); ordered by decreasing RATIO under the premise that the key separates the occurring ratios, which fails only below 2^-9 (known finding F9). The binary32 instance is proved with Flocq: the expression as the crate writes it, rounding after every operation, is monotone, and so is the u32 key (c18_*_binary32; these rest on the standard library real-number axioms, named in the evidence). The run-time check recomputes every candidate's ratio with the extracted lcs_len as binary32(binary64(2L)/binary64(N+M)), proved equal to the crate's expression for lengths below 2^24 (c18_driver_ratio_eq, double rounding), and compares the result with the exhaustive ranking on words with mixed-width characters, duplicates, empty strings, n in {0,1,3,100,2^32,2^63,usize::MAX} and cutoffs at, just below and just above every ratio value.",
        note='Trusted: Coq 8.16.1 kernel; extraction with ExtrOcamlBasic only; OCaml driver and Rust harness glue; the tie of the hand-written model to /repo is the correspondence check (differential testing on the generated inputs, rebuilt from the working tree every run), not a proof about the Rust source. usize wrap-around is not modelled.',
        technique='Coq proof over an abstract monotone rounding + Flocq binary32 instance + verified-optimum checker and exhaustive-ranking oracle on implementation output',
    ),
    relevant=lambda comp, kv: {"no_panic", "close_matches_spec", "close_matches_spec@keytie", "close_ratio_is_2L"},
    run=run_C18,
    generators="close component (get_close_matches): words and candidate lists over a 3-letter alphabet (all words up to "
               "length 3, duplicates, empty strings), mixed-width characters (1/2/3/4-byte) where byte length differs "
               "from char count, near misses of a longer word, prefixes and extensions of the word (passed as sub-slices of one buffer); n in {0,1,3,100,2^32,2^63,usize::MAX}; cutoffs 0, 1, 0.5, 0.6 and every ratio "
               "value that occurs exactly, its f32 successor and predecessor",
)


# ------------------------------------------------------------------ C19
def run_C19(ctx):
    rel = SPECS["C19"]["relevant"]
    small = small_world_raw(ctx, algs="MP")
    C.evaluate(ctx, "raw-small-world", small, rel)
    mid = random_world(ctx, tiered(ctx, 1500, 15000), 120,
                       lambda a, b, r, idx: [gen.raw_line(alg, a, b, r, idx=idx) for alg in "MP"])
    C.evaluate(ctx, "raw-random-120", mid, rel)
    big = []
    sizes = tiered(ctx, [300, 1000, 3000], [300, 1000, 2000, 4000])
    for n in sizes:
        for fam in range(6):
            for rep in range(tiered(ctx, 2, 6)):
                if fam == 0:      # near identical, few edits, large alphabet
                    a = gen.rand_seq(ctx.rng, n, 1000)
                    b = gen.edit_seq(ctx.rng, a, ctx.rng.randrange(1, 21), 1000)
                elif fam == 1:    # near identical, small alphabet
                    a = gen.rand_seq(ctx.rng, n, 3)
                    b = gen.edit_seq(ctx.rng, a, ctx.rng.randrange(1, 21), 3)
                elif fam == 2:    # block move
                    a = gen.rand_seq(ctx.rng, n, 50)
                    b = gen.block_move(ctx.rng, a)
                elif fam == 3:    # periodic
                    p = ctx.rng.choice([2, 3, 7])
                    a = [i % p for i in range(n)]
                    b = [(i + 1) % p for i in range(n - ctx.rng.randrange(0, 5))]
                elif fam == 4:    # all unique, few edits (Patience anchors)
                    a = list(range(n))
                    b = gen.edit_seq(ctx.rng, a, ctx.rng.randrange(1, 10), 5 * n)
                else:             # unrelated (quadratic by design): keep it smaller
                    m = min(n, 600)
                    a = gen.rand_seq(ctx.rng, m, 4)
                    b = gen.rand_seq(ctx.rng, m, 4)
                if rep % 2 == 1:
                    # item values with many trailing zero bits (what a multiplicative hash maps to one bucket)
                    a = [x << 20 for x in a]
                    b = [x << 20 for x in b]
                for alg in "MP":
                    big.append(gen.raw_line(alg, a, b))
                    ctx.count("raw:large-%d" % n)
    # completely unrelated sequences over a large alphabet: D = N+M in the thousands, the regime where a
    # per-round or per-box overhead that grows with D (re-started searches, re-scanned diagonals) shows
    for m in tiered(ctx, [1200, 2500], [1200, 2500, 4000]):
        a = [2 * i for i in range(m)]
        b = [2 * i + 1 for i in range(m)]
        ctx.rng.shuffle(a)
        ctx.rng.shuffle(b)
        for alg in "MP":
            big.append(gen.raw_line(alg, a, b))
            ctx.count("raw:large-unrelated-%d" % m)
    impl, _, _ = C.evaluate(ctx, "raw-large", big, rel, x=False, cap=120)
    # observed constant: comparisons / ((N+M+1)(D+1)), D = size of the reported script
    worst = 0.0
    for line, im in zip(big, impl):
        m = re.search(r"cmps=(\d+)", im)
        if not m:
            continue
        comp, kv = C.parse_line(line)
        nn = (0 if kv["old"] == "-" else kv["old"].count(",") + 1) + (0 if kv["new"] == "-" else kv["new"].count(",") + 1)
        d = sum(int(c.split(":")[2]) if c[0] == "D" else int(c.split(":")[3]) for c in im.split(" ")[0].split("=", 1)[1].split(",") if c[0] in "DI")
        worst = max(worst, int(m.group(1)) / ((nn + 1) * (d + 1)))
    ctx.notes.append("largest observed comparisons/((N+M+1)(D+1)) on the large inputs: %.3f (bound checked: 6 for Myers, 12 for Patience — the proved constants)" % worst)


SPECS["C19"] = dict(
    level=("proof" if __import__("os").path.exists(__import__("os").path.join(C.VERIF, "coq", "Props", "C19.v")) else "translation_validation"),
    manifest=dict(
        text="The comparison count of the model equals the real crate's count (counting PartialEq) exactly on all small worlds and random pairs (Myers and Patience), and the proved bounds are checked on the real counts up to 4000 items for near-identical, block-move, periodic, all-unique and unrelated inputs. Machine-checked theorems (Props/C19.v, closed under the global context): Myers makes at most 6 (N+M+1)(D+1) comparisons, D the optimal cost (c19_myers_work_bound; per scan, per round, per search and the halving recursion), and Patience at most 12 (N+M+1)(D+1) with D the size of the script it reports, provided the three comparison oracles behave like one equality on items (c19_patience_work_bound; c19_patience_needs_consistent shows the bound fails for every constant with contradictory Hash/Eq).",
        note='Trusted: Coq 8.16.1 kernel; extraction with ExtrOcamlBasic only; OCaml driver and Rust harness glue; the tie of the hand-written model to /repo is the correspondence check (differential testing on the generated inputs, rebuilt from the working tree every run), not a proof about the Rust source. usize wrap-around is not modelled.',
        technique='exact count correspondence model/implementation + bound checked on large structured inputs; Coq proof of the count bounds for Myers (C=6) and Patience (C=12)',
    ),
    relevant=lambda comp, kv: {"no_panic", "work_bound", "same_side_work"},
    run=run_C19,
    generators="raw component with a counting PartialEq, algorithms Myers and Patience, no deadline: the exhaustive "
               "small worlds and random pairs up to 120 (comparison counts compared with the model exactly), and "
               "sequences of 300..3000/4000 items: near-identical (1-20 edits, large and small alphabets), block moves, "
               "periodic, all-unique with few edits, unrelated (up to 600, small alphabet; and 1200..4000 items with no common item at all, D = N+M); bound checked: comparisons <= 6 (N+M+1)(D+1) "
               "with D the size of the reported script",
)
