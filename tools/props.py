"""Per-property check definitions: which components are generated, which
verified-checker clauses decide the property, which theorems are pinned."""
import gen
import check as C

ALGS = "MPL"

# axioms each property's theorems may depend on (exact names, checked every run)
AXIOMS = {}
# theorem names that must be present in Props/Cxx.v
PINNED = {}
SPECS = {}


def tiered(ctx, quick, thorough):
    return quick if ctx.tier == "quick" else thorough


# ------------------------------------------------------------------ corpus
def corpus_lines(component_prefixes):
    import os
    out = []
    d = os.path.join(C.VERIF, "corpus")
    for root, _, files in os.walk(d):
        for f in sorted(files):
            if f.endswith(".case"):
                for line in open(os.path.join(root, f)):
                    line = line.strip()
                    if line and not line.startswith("#") and line.split(" ")[0] in component_prefixes:
                        out.append(line)
    return out


# ------------------------------------------------------------------ shared worlds
def small_world_raw(ctx, stack="none", algs=ALGS, dl=None):
    """exhaustive: binary pairs len<=3 with all sub-ranges (slice and offset
    lookups) + ternary pairs len<=4 (quick) / binary len<=4 all sub-ranges +
    ternary len<=5 (thorough), full range"""
    lines = []
    l2 = tiered(ctx, 3, 4)
    l3 = tiered(ctx, 4, 5)
    for a, b in gen.all_pairs(2, l2):
        for os_, oe in gen.all_ranges(len(a)):
            for ns, ne in gen.all_ranges(len(b)):
                for alg in algs:
                    lines.append(gen.raw_line(alg, a, b, (os_, oe, ns, ne), dl=dl, stack=stack))
                    ctx.count("raw:binary-subrange")
                    if (os_ + ns + len(a)) % 3 == 0:
                        lines.append(gen.raw_line(alg, a, b, (os_, oe, ns, ne), idx=(2, 5), dl=dl, stack=stack))
                        ctx.count("raw:offset-lookup")
    seen = set()
    for a, b in gen.all_pairs(3, l3):
        key = gen.canon_pair(a, b)
        if key in seen:
            continue
        seen.add(key)
        for alg in algs:
            lines.append(gen.raw_line(alg, a, b, dl=dl, stack=stack))
            ctx.count("raw:ternary-full")
    return lines


def random_world(ctx, n, maxlen, mk):
    lines = []
    for _ in range(n):
        a, b = gen.structured_pair(ctx.rng, maxlen)
        r = gen.rand_subranges(ctx.rng, a, b) if ctx.rng.random() < 0.4 else (0, len(a), 0, len(b))
        idx = (ctx.rng.randrange(0, 4), ctx.rng.randrange(0, 4)) if ctx.rng.random() < 0.2 else "S"
        lines += mk(a, b, r, idx)
        ctx.count("random:len<=%d" % maxlen)
    return lines


# ------------------------------------------------------------------ C01
def run_C01(ctx):
    rel = SPECS["C01"]["relevant"]
    C.evaluate(ctx, "corpus", corpus_lines({"raw"}), rel)
    C.evaluate(ctx, "raw-small-world", small_world_raw(ctx), rel)
    n = tiered(ctx, 3000, 30000)
    lines = random_world(ctx, n, tiered(ctx, 40, 120),
                         lambda a, b, r, idx: [gen.raw_line(alg, a, b, r, idx=idx) for alg in ALGS])
    C.evaluate(ctx, "raw-random", lines, rel)
    big = random_world(ctx, tiered(ctx, 30, 300), 300,
                       lambda a, b, r, idx: [gen.raw_line(alg, a, b, r, idx=idx) for alg in "MP"])
    C.evaluate(ctx, "raw-random-300", big, rel)


SPECS["C01"] = dict(
    level="proof",
    relevant=lambda comp, kv: {"no_panic", "no_error", "raw_valid", "finish_last"},
    run=run_C01,
    generators="raw component, recording hook, no deadline: every pair of binary sequences up to length 3 (quick) "
               "/ 4 (thorough) with every pair of sub-ranges for the three algorithms, a third of them also through an "
               "offset lookup; every pair of ternary sequences up to length 4 / 5 modulo relabelling; structured random "
               "pairs (near-identical, block moves, periodic, low-entropy, unique-rich, repeats next to edits, "
               "unrelated) up to length 40 / 120 with random sub-ranges and offset lookups; Myers/Patience up to 300",
)


# ------------------------------------------------------------------ C02
def small_world_capture(ctx, algs=ALGS, dl=None, repair=0):
    lines = []
    l2 = tiered(ctx, 3, 4)
    l3 = tiered(ctx, 4, 5)
    for a, b in gen.all_pairs(2, l2):
        for os_, oe in gen.all_ranges(len(a)):
            for ns, ne in gen.all_ranges(len(b)):
                for alg in algs:
                    lines.append(gen.capture_line(alg, a, b, (os_, oe, ns, ne), dl=dl, repair=repair))
                    ctx.count("capture:binary-subrange")
    seen = set()
    for a, b in gen.all_pairs(3, l3):
        key = gen.canon_pair(a, b)
        if key in seen:
            continue
        seen.add(key)
        for alg in algs:
            lines.append(gen.capture_line(alg, a, b, dl=dl, repair=repair))
            ctx.count("capture:ternary-full")
    return lines


def capture_with_deadlines(ctx, pairs, algs=ALGS, repair=0):
    """for each pair and algorithm: the never-expiring clock first (to learn the
    number of probes), then every expiry point k"""
    first = []
    meta = []
    for a, b, r, idx in pairs:
        for alg in algs:
            first.append(gen.capture_line(alg, a, b, r, idx=idx, dl=10 ** 9, repair=repair))
            meta.append((alg, a, b, r, idx))
    impl, _, _ = C.run_batch(ctx, first, want_model=False, want_check=False)
    lines = []
    import re
    for (alg, a, b, r, idx), im in zip(meta, impl):
        m = re.search(r"probes=(\d+)", im)
        p = int(m.group(1)) if m else 0
        for k in range(0, min(p, 40) + 1):
            lines.append(gen.capture_line(alg, a, b, r, idx=idx, dl=k, repair=repair))
            ctx.count("capture:deadline-k")
    return first + lines


def run_C02(ctx):
    rel = SPECS["C02"]["relevant"]
    C.evaluate(ctx, "corpus", corpus_lines({"capture"}), rel)
    C.evaluate(ctx, "capture-small-world", small_world_capture(ctx), rel)
    lines = random_world(ctx, tiered(ctx, 2000, 20000), tiered(ctx, 40, 120),
                         lambda a, b, r, idx: [gen.capture_line(alg, a, b, r, idx=idx) for alg in ALGS])
    C.evaluate(ctx, "capture-random", lines, rel)
    pairs = []
    for a, b in gen.all_pairs(2, tiered(ctx, 3, 4)):
        pairs.append((a, b, None, "S"))
    for _ in range(tiered(ctx, 150, 1500)):
        a, b = gen.structured_pair(ctx.rng, 30)
        pairs.append((a, b, None, "S"))
    C.evaluate(ctx, "capture-deadline-every-k", capture_with_deadlines(ctx, pairs), rel)


SPECS["C02"] = dict(
    level="proof",
    relevant=lambda comp, kv: {"no_panic", "ops_loose", "ratio_range", "identical_only_equal"},
    run=run_C02,
    generators="capture component (capture_diff_deadline + get_diff_ratio): the exhaustive small worlds of C01 with all "
               "sub-ranges; structured random pairs; and for every binary pair up to length 3/4 and random pairs up to "
               "length 30 every deadline expiry point k = 0..#probes",
)


# ------------------------------------------------------------------ C03
def run_C03(ctx):
    rel = SPECS["C03"]["relevant"]
    C.evaluate(ctx, "corpus", corpus_lines({"raw", "capture"}), rel)
    C.evaluate(ctx, "raw-small-world", small_world_raw(ctx, algs="ML"), rel)
    C.evaluate(ctx, "capture-small-world", small_world_capture(ctx, algs="ML"), rel)
    lines = random_world(ctx, tiered(ctx, 1500, 15000), tiered(ctx, 40, 100),
                         lambda a, b, r, idx: [gen.raw_line(alg, a, b, r, idx=idx) for alg in "ML"]
                         + [gen.capture_line(alg, a, b, r, idx=idx) for alg in "ML"])
    C.evaluate(ctx, "random", lines, rel)
    big = random_world(ctx, tiered(ctx, 20, 200), 250,
                       lambda a, b, r, idx: [gen.capture_line("M", a, b, r, idx=idx)])
    C.evaluate(ctx, "capture-random-250", big, rel)


SPECS["C03"] = dict(
    level="proof",
    relevant=lambda comp, kv: {"no_panic", "minimal", "equal_is_lcs", "ratio_2L"},
    run=run_C03,
    generators="raw and capture components, algorithms Myers and LCS, no deadline: exhaustive small worlds with "
               "sub-ranges, structured random pairs up to 100, Myers capture up to 250; the optimum is computed by the "
               "extracted lcs_len (Check/Script.v)",
)


# ------------------------------------------------------------------ C07
def raw_with_deadlines(ctx, pairs, algs=ALGS, kmax=60):
    first = []
    meta = []
    for a, b, r, idx in pairs:
        for alg in algs:
            first.append(gen.raw_line(alg, a, b, r, idx=idx, dl=10 ** 9))
            first.append(gen.raw_line(alg, a, b, r, idx=idx, dl=None))
            meta.append((alg, a, b, r, idx))
    impl, _, _ = C.run_batch(ctx, first, want_model=False, want_check=False)
    lines = []
    import re
    never_ne = []
    for t, (alg, a, b, r, idx) in enumerate(meta):
        im_never, im_none = impl[2 * t], impl[2 * t + 1]
        m = re.search(r"probes=(\d+)", im_never)
        p = int(m.group(1)) if m else 0
        if im_never.split(" ")[0] != im_none.split(" ")[0]:
            never_ne.append((first[2 * t], im_never, im_none))
        ks = list(range(0, min(p, kmax) + 1))
        if p > kmax:
            ks += sorted({ctx.rng.randrange(kmax, p + 1) for _ in range(10)})
        for k in ks:
            lines.append(gen.raw_line(alg, a, b, r, idx=idx, dl=k))
            ctx.count("raw:deadline-k")
    return first, lines, never_ne


def run_C07(ctx):
    rel = SPECS["C07"]["relevant"]
    pairs = [(a, b, None, "S") for a, b in gen.all_pairs(2, tiered(ctx, 3, 4))]
    for a, b in gen.all_pairs(3, 3):
        if ctx.rng.random() < tiered(ctx, 0.15, 1.0):
            pairs.append((a, b, None, "S"))
    for _ in range(tiered(ctx, 300, 3000)):
        a, b = gen.structured_pair(ctx.rng, tiered(ctx, 40, 80))
        r = gen.rand_subranges(ctx.rng, a, b) if ctx.rng.random() < 0.3 else None
        pairs.append((a, b, r, "S"))
    first, lines, never_ne = raw_with_deadlines(ctx, pairs)
    C.evaluate(ctx, "corpus", corpus_lines({"raw"}), rel)
    C.evaluate(ctx, "raw-never-and-none", first, rel)
    C.evaluate(ctx, "raw-deadline-every-k", lines, rel)
    for case, a, b in never_ne:
        ctx.failures.append(dict(batch="never-vs-none", case=case, impl=a, model=b,
                                 clauses=["never_expiring_deadline_eq_no_deadline"], dbg=False))
    # plumbing: capture_diff_deadline reaches the algorithm (probes > 0, same ops as the model with clock 0)
    cap = []
    for a, b, r, idx in pairs[:tiered(ctx, 400, 4000)]:
        if a and b and a != b:
            for alg in ALGS:
                cap.append(gen.capture_line(alg, a, b, r, idx=idx, dl=0))
    C.evaluate(ctx, "capture-deadline-0", cap, rel)


def relevant_C07(comp, kv):
    return {"no_panic", "no_error", "raw_valid", "finish_last", "post_expiry_work", "ops_loose", "deadline_plumbed"}


SPECS["C07"] = dict(
    level="proof",
    relevant=relevant_C07,
    run=run_C07,
    generators="raw component with the cfg(similar_verif) virtual clock: for every binary pair up to length 3/4, a "
               "sample of ternary pairs up to 3 and structured random pairs up to 40/80, the run with a never-expiring "
               "deadline, the run without deadline (must be identical), and every expiry point k = 0..#probes "
               "(all k up to 60, then 10 random later ones); capture_diff_deadline with the clock expiring at probe 0",
)


# ------------------------------------------------------------------ C08
STACKS = ["none", "mutref", "nofinish", "replace", "replace_norep", "compact", "compact_replace"]


def run_C08(ctx):
    rel = SPECS["C08"]["relevant"]
    pairs = []
    for a, b in gen.all_pairs(2, tiered(ctx, 3, 4)):
        pairs.append((a, b))
    for _ in range(tiered(ctx, 100, 1500)):
        pairs.append(gen.structured_pair(ctx.rng, 25))
    first = []
    meta = []
    for a, b in pairs:
        for alg in ALGS:
            for st in STACKS:
                # no deadline, and the deadline expiring at probe 0 / 1 / 2 (the
                # fallback paths make different hook calls)
                for dl in (None, 0, 1, 2):
                    if dl is not None and dl > 0 and len(a) + len(b) < 3:
                        continue
                    first.append(gen.raw_line(alg, a, b, stack=st, dl=dl))
                    meta.append((alg, a, b, st, dl))
    impl, _, _ = C.evaluate(ctx, "raw-stacks-unfailed", first, rel)
    lines = []
    for (alg, a, b, st, dl), im in zip(meta, impl):
        calls = im.split(" ")[0].split("=", 1)[1] if im.startswith("calls=") else "-"
        ncalls = 0 if calls == "-" else len(calls.split(","))
        ks = range(0, ncalls + 1) if ncalls <= 12 else sorted({0, 1, ncalls - 1, ncalls} | {ctx.rng.randrange(ncalls) for _ in range(6)})
        for k in ks:
            lines.append(gen.raw_line(alg, a, b, stack=st, fail=k, dl=dl))
            ctx.count("raw:fail-at-k" + ("" if dl is None else "+deadline"))
    C.evaluate(ctx, "raw-stacks-fail-every-k", lines, rel)
    # arbitrary scripts through the adapters, failing at every k
    ad = []
    for a, b in gen.all_pairs(2, 2):
        for sc in gen.all_scripts(a, b, limit=40):
            for st in ["replace", "replace_norep", "compact", "compact_replace", "nofinish", "mutref"]:
                n_out = len(sc) + 1
                for k in range(0, n_out):
                    ad.append(gen.adapter_line(a, b, sc, st, fail=k))
                    ctx.count("adapter:fail-at-k")
    if ctx.tier == "quick":
        ctx.rng.shuffle(ad)
        ad = ad[:20000]
    C.evaluate(ctx, "adapter-fail-every-k", ad, rel)


SPECS["C08"] = dict(
    level="proof",
    relevant=lambda comp, kv: {"no_panic", "no_error", "abort", "finish_last", "nofinish_no_fin", "no_rep"},
    run=run_C08,
    generators="raw component over 3 algorithms x 7 hook stacks (recording hook, &mut, NoFinishHook, Replace over a hook "
               "with / without its own replace, Compact, Compact+Replace) on every binary pair up to length 3/4 and "
               "random pairs up to 25, without deadline and with the virtual clock expiring at probe 0, 1 and 2: the unfailed "
               "run, then the recording hook failing at every call index k; "
               "adapter component: every valid script of binary pairs up to length 2 through the adapter stacks, "
               "failing at every k",
)


# ------------------------------------------------------------------ C09
def run_C09(ctx):
    rel = SPECS["C09"]["relevant"]
    C.evaluate(ctx, "corpus", corpus_lines({"capture", "adapter"}), rel)
    C.evaluate(ctx, "capture-small-world", small_world_capture(ctx), rel)
    lines = random_world(ctx, tiered(ctx, 2000, 20000), tiered(ctx, 40, 120),
                         lambda a, b, r, idx: [gen.capture_line(alg, a, b, r, idx=idx) for alg in ALGS])
    C.evaluate(ctx, "capture-random", lines, rel)
    pairs = [(a, b, None, "S") for a, b in gen.all_pairs(2, 3)]
    for _ in range(tiered(ctx, 100, 1000)):
        a, b = gen.structured_pair(ctx.rng, 30)
        pairs.append((a, b, None, "S"))
    C.evaluate(ctx, "capture-deadline-every-k", capture_with_deadlines(ctx, pairs), rel)
    C.evaluate(ctx, "adapter-scripts", adapter_world(ctx, ["compact_replace"]), rel, dbg=False)


SPECS["C09"] = dict(
    level="proof",
    relevant=lambda comp, kv: {"no_panic", "normal"} if kv.get("stack", "compact_replace") == "compact_replace" else {"no_panic"},
    run=run_C09,
    generators="capture component as in C02 (small worlds, random, every deadline expiry point) and every valid script "
               "of the C10 adapter world pushed through Compact+Replace",
)


# ------------------------------------------------------------------ C10
def adapter_world(ctx, stacks):
    lines = []
    l2 = tiered(ctx, 3, 4)
    for a, b in gen.all_pairs(2, l2):
        scs = gen.all_scripts(a, b, limit=tiered(ctx, 300, 3000))
        for sc in scs:
            for st in stacks:
                lines.append(gen.adapter_line(a, b, sc, st))
                ctx.count("adapter:exhaustive-binary")
    for a, b in gen.all_pairs(3, 2):
        for sc in gen.all_scripts(a, b):
            for st in stacks:
                lines.append(gen.adapter_line(a, b, sc, st))
                ctx.count("adapter:exhaustive-ternary")
    for _ in range(tiered(ctx, 1500, 15000)):
        a, b = gen.structured_pair(ctx.rng, tiered(ctx, 14, 40))
        sc = gen.random_script(ctx.rng, a, b, p_eq=ctx.rng.choice([0.3, 0.6, 0.9]))
        for st in stacks:
            lines.append(gen.adapter_line(a, b, sc, st))
            ctx.count("adapter:random-script")
    return lines


def run_C10(ctx):
    rel = SPECS["C10"]["relevant"]
    C.evaluate(ctx, "corpus", corpus_lines({"adapter"}), rel)
    lines = adapter_world(ctx, ["compact", "replace", "compact_replace"])
    C.evaluate(ctx, "adapter-release", lines, rel, dbg=False)
    C.evaluate(ctx, "adapter-debug", lines, rel, dbg=True)


SPECS["C10"] = dict(
    level="proof",
    need_debug=True,
    relevant=lambda comp, kv: {"no_panic", "no_error", "finish_last", "ops_loose", "cost_kept", "normal", "ops_exact"},
    run=run_C10,
    generators="adapter component: every valid script (all ways of splitting and interleaving delete/insert runs and "
               "equal segments) of every binary pair up to length 3/4 and ternary pair up to 2, plus random scripts of "
               "structured pairs up to 14/40, through Compact, Replace and Compact+Replace; release and debug builds "
               "(debug_assert!, usize underflow)",
)


# ------------------------------------------------------------------ C11
def run_C11(ctx):
    rel = SPECS["C11"]["relevant"]
    C.evaluate(ctx, "corpus", corpus_lines({"capture"}), rel)
    C.evaluate(ctx, "capture-small-world", small_world_capture(ctx), rel)
    C.evaluate(ctx, "capture-small-world-repaired", small_world_capture(ctx, repair=1), rel)
    lines = random_world(ctx, tiered(ctx, 2000, 20000), tiered(ctx, 40, 120),
                         lambda a, b, r, idx: [gen.capture_line(alg, a, b, r, idx=idx, repair=rp)
                                               for alg in ALGS for rp in (0, 1)])
    C.evaluate(ctx, "capture-random", lines, rel)


SPECS["C11"] = dict(
    level="proof",
    relevant=lambda comp, kv: {"no_panic", "ops_exact"},
    run=run_C11,
    generators="capture component, with the cfg(similar_verif) swap-repair switch off (the pinned pipeline) and on: "
               "exhaustive small worlds with sub-ranges, structured random pairs.  Every case failing ops_exact with "
               "the switch off is re-run with the switch on for attribution to the known finding F5",
)


# ------------------------------------------------------------------ C12
def group_line(ops, n, via="fn"):
    return "group n=%d via=%s ops=%s" % (n, via, gen.fmt_calls(ops))


def run_C12(ctx):
    rel = SPECS["C12"]["relevant"]
    lines = []
    for n in range(0, 4):
        for ops in gen.alternating_lists(n, tiered(ctx, 4, 5), kinds=("D", "I", "R") if ctx.tier != "quick" else ("D", "R")):
            lines.append(group_line(ops, n))
            ctx.count("group:exhaustive-alternating")
    if ctx.tier == "quick" and len(lines) > 60000:
        ctx.rng.shuffle(lines)
        lines = lines[:60000]
    for _ in range(tiered(ctx, 3000, 30000)):
        n = ctx.rng.randrange(0, 6)
        lines.append(group_line(gen.random_alternating(ctx.rng, n), n, via=ctx.rng.choice(["fn", "capture"])))
        ctx.count("group:random-alternating")
    C.evaluate(ctx, "corpus", corpus_lines({"group"}), rel)
    C.evaluate(ctx, "group", lines, rel, nontrivial=lambda comp, kv, impl: "|" in impl or "," in impl)


SPECS["C12"] = dict(
    level="proof",
    manifest=dict(
        text="Machine-checked theorems (Props/C12.v, closed under the global context): for every alternating op list and "
             "every radius n, the model of group_diff_ops (in-place trimming of first/last Equal, split at len > 2n, drop of "
             "Equal-only groups) equals an independent declarative reference group_ref; group_ref satisfies the relational "
             "GroupSpec (context = min(n, available) items of the adjacent Equal run with the right indices, interior "
             "Equals whole and <= 2n, groups separated exactly by Equals > 2n), GroupSpec determines the result uniquely, "
             "every change appears once and in order (G2), no Equal-only group (G1), none without changes (G0). "
             "The extracted check_groups (= equality with group_ref, reflection proved) is run on the real group_diff_ops "
             "and Capture::into_grouped_ops outputs.",
        note="Trusted: Coq kernel; extraction (ExtrOcamlBasic); OCaml driver and Rust harness glue. The tie of the model to "
             "src/common.rs is differential testing over the exhaustive boundary-length world and random lists.",
        technique="Coq proof (model = declarative reference, relational spec with uniqueness) + correspondence + verified checker on implementation output",
    ),
    relevant=lambda comp, kv: {"no_panic", "group_spec"},
    run=run_C12,
    generators="group component: every alternating op list with up to 4/5 runs, starting with either kind, equal-run "
               "lengths from {1,n-1,n,n+1,2n-1,2n,2n+1,2n+2}, n in 0..3; random alternating lists with up to 11 runs, "
               "n in 0..5, through group_diff_ops and Capture::into_grouped_ops",
)


# ------------------------------------------------------------------ C13
def run_C13(ctx):
    rel = SPECS["C13"]["relevant"]
    lines = []
    old = list(range(100, 108))
    new = list(range(200, 208))
    for o in range(0, 4):
        for n in range(0, 4):
            for l1 in range(0, 4):
                lines.append("iter ops=E:%d:%d:%d old=%s new=%s" % (o, n, l1, gen.fmt_list(old), gen.fmt_list(new)))
                lines.append("iter ops=D:%d:%d:%d old=%s new=%s" % (o, l1, n, gen.fmt_list(old), gen.fmt_list(new)))
                lines.append("iter ops=I:%d:%d:%d old=%s new=%s" % (o, n, l1, gen.fmt_list(old), gen.fmt_list(new)))
                for l2 in range(0, 4):
                    lines.append("iter ops=R:%d:%d:%d:%d old=%s new=%s" % (o, l1, n, l2, gen.fmt_list(old), gen.fmt_list(new)))
                ctx.count("iter:single-op", 7)
    for _ in range(tiered(ctx, 2000, 20000)):
        n = ctx.rng.randrange(0, 6)
        ops = gen.random_alternating(ctx.rng, n)
        tot_o = sum(c[3] if c[0] == "E" else c[2] if c[0] in "DR" else 0 for c in ops)
        tot_n = sum(c[3] if c[0] in "EI" else c[4] if c[0] == "R" else 0 for c in ops)
        o = [ctx.rng.randrange(1000) for _ in range(tot_o)]
        nw = [1000 + ctx.rng.randrange(1000) for _ in range(tot_n)]
        lines.append("iter ops=%s old=%s new=%s" % (gen.fmt_calls(ops), gen.fmt_list(o), gen.fmt_list(nw)))
        ctx.count("iter:op-list")
    C.evaluate(ctx, "iter", lines, rel, nontrivial=lambda comp, kv, impl: "changes=-" not in impl)


SPECS["C13"] = dict(
    level="proof",
    manifest=dict(
        text="Machine-checked theorems (Props/C13.v, closed under the global context): for every item type, lookups and op, "
             "the iterator state machine of the model equals the declarative expansion (iter_changes = expand_op, "
             "iter_all_changes = concat of per-op expansions, shape of every change, slice-wise expansion carries the same "
             "items, apply_to_hook into Capture is the identity), with no bound on lengths or offsets. The model is tied to "
             "src/iter.rs and DiffOp::iter_slices/apply_to_hook by running both on the same ops and by running the extracted "
             "expand_op/expand_all on the implementation's own output.",
        note="Trusted: Coq kernel; extraction (ExtrOcamlBasic); OCaml driver and Rust harness glue; the correspondence is "
             "differential testing over all four op kinds x offsets x lengths and random op lists, not a proof about the Rust source.",
        technique="Coq proof of model (state machine = declarative spec) + model/implementation correspondence + verified checker on implementation output",
    ),
    relevant=lambda comp, kv: {"no_panic", "iter_spec", "slices_spec", "recap_id"},
    run=run_C13,
    generators="iter component: all four op kinds x offsets 0..3 on both sides x lengths 0..3 over sequences whose old "
               "and new values are disjoint, plus random op lists over random sequences: iter_changes, iter_slices, "
               "apply_to_hook into Capture",
)
