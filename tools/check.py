#!/usr/bin/env python3
"""Orchestrator: proof gate -> build harness from /repo's working tree ->
generate cases -> run implementation (Rust harness) and model (extracted OCaml)
-> compare (X) -> run verified checkers on the implementation's outputs (K) ->
attribute / shrink / search -> evidence + verdict.

usage: tools/check.py <Cxx> [--tier quick|thorough] [--replay <file>]
"""
import fcntl
import json
import os
import random
import re
import shutil
import subprocess
import sys
import time

VERIF = os.path.dirname(os.path.dirname(os.path.abspath(__file__)))
REPO = "/repo"
sys.path.insert(0, os.path.join(VERIF, "tools"))
import gen  # noqa: E402
import props  # noqa: E402

HARNESS_DIR = os.path.join(VERIF, "harness")
DRIVER = os.path.join(VERIF, "ocaml", "driver")
NPROC = 16

AXIOM_ALLOW = {
    # standard-library axioms only; per property the allowlist is narrower (props.py)
    "ClassicalDedekindReals.sig_forall_dec",
    "ClassicalDedekindReals.sig_not_dec",
    "FunctionalExtensionality.functional_extensionality_dep",
    "Classical_Prop.classic",
}


def sh(cmd, **kw):
    return subprocess.run(cmd, stdout=subprocess.PIPE, stderr=subprocess.STDOUT, text=True, **kw)


class Ctx:
    def __init__(self, prop, tier, seed):
        self.prop = prop
        self.tier = tier
        self.seed = seed
        self.rng = random.Random(seed * 1000003 + int(prop[1:]))
        self.work = os.path.join(VERIF, "work", "%s-%d" % (prop, os.getpid()))
        os.makedirs(self.work, exist_ok=True)
        self.t0 = time.time()
        self.stats = {}
        self.batch_no = 0
        self.evaluations = 0
        self.nontrivial = set()
        self.samples = []
        self.incoq_pool = []
        self.incoq = None
        self.dist = {}
        self.failures = []       # K failures: concrete failing inputs
        self.mismatches = []     # X mismatches
        self.known = {}          # finding id -> [count, witness]
        self.notes = []
        self.drift = []

    def cleanup(self):
        shutil.rmtree(self.work, ignore_errors=True)

    def count(self, key, k=1):
        self.dist[key] = self.dist.get(key, 0) + k


# ---------------------------------------------------------------- builds
def env_cargo():
    e = dict(os.environ)
    e["RUSTFLAGS"] = "--cfg similar_verif"
    e["CARGO_NET_OFFLINE"] = "true"
    e["CARGO_TARGET_DIR"] = os.path.join(HARNESS_DIR, "target")
    return e


def build_all(ctx, need_debug):
    """(re)build everything from /repo's current working tree; serialised by a lock"""
    os.makedirs(os.path.join(VERIF, "work"), exist_ok=True)
    with open(os.path.join(VERIF, "work", ".build.lock"), "w") as lk:
        fcntl.flock(lk, fcntl.LOCK_EX)
        # Coq: model, checkers, extraction
        if not os.path.exists(os.path.join(VERIF, "coq", "Makefile")):
            r = sh(["coq_makefile", "-f", "_CoqProject", "-o", "Makefile"], cwd=os.path.join(VERIF, "coq"))
            if r.returncode != 0:
                raise RuntimeError("coq_makefile failed:\n" + r.stdout)
        r = sh(["timeout", "1500", "make", "-j%d" % NPROC, "Extract/Extract.vo"], cwd=os.path.join(VERIF, "coq"))
        if r.returncode != 0:
            raise RuntimeError("coq build of the model failed:\n" + r.stdout[-3000:])
        ml = os.path.join(VERIF, "ocaml", "model.ml")
        srcs = [os.path.join(VERIF, "ocaml", f) for f in os.listdir(os.path.join(VERIF, "ocaml")) if f.endswith(".ml")]
        if not os.path.exists(DRIVER) or any(os.path.getmtime(s) > os.path.getmtime(DRIVER) for s in srcs + [ml]):
            r = sh(["sh", os.path.join(VERIF, "ocaml", "build.sh")])
            if r.returncode != 0:
                raise RuntimeError("driver build failed:\n" + r.stdout[-3000:])
        # harness against /repo's working tree (path dependency: cargo rebuilds on change)
        lock = os.path.join(HARNESS_DIR, "Cargo.lock")
        if not os.path.exists(lock):
            shutil.copy(os.path.join(REPO, "Cargo.lock"), lock)
        r = sh(["cargo", "build", "--release", "--offline"], cwd=HARNESS_DIR, env=env_cargo())
        if r.returncode != 0:
            return "harness (release) does not build against /repo:\n" + r.stdout[-3000:]
        if need_debug:
            r = sh(["cargo", "build", "--offline"], cwd=HARNESS_DIR, env=env_cargo())
            if r.returncode != 0:
                return "harness (debug) does not build against /repo:\n" + r.stdout[-3000:]
    return None


def harness_bin(dbg):
    return os.path.join(HARNESS_DIR, "target", "debug" if dbg else "release", "similar-verif-harness")


# ---------------------------------------------------------------- proof gate
GREP_BAD = re.compile(
    r"\b(Admitted|admit|Axiom|Axioms|Parameter|Parameters|Conjecture|Conjectures)\b|Unset\s+Guard|bypass_check|type-in-type|impredicative-set|Admit\s+Obligations")


def strip_comments(src):
    out = []
    depth = 0
    i = 0
    while i < len(src):
        if src.startswith("(*", i):
            depth += 1
            i += 2
        elif src.startswith("*)", i) and depth > 0:
            depth -= 1
            i += 2
        else:
            if depth == 0:
                out.append(src[i])
            i += 1
    return "".join(out)


def grep_gate():
    bad = []
    for root, _, files in os.walk(os.path.join(VERIF, "coq")):
        for f in files:
            if f.endswith(".v"):
                p = os.path.join(root, f)
                txt = strip_comments(open(p).read())
                for ln, line in enumerate(txt.split("\n"), 1):
                    if GREP_BAD.search(line):
                        bad.append("%s:%d: %s" % (p, ln, line.strip()))
    # Variable/Hypothesis outside a section
    for root, _, files in os.walk(os.path.join(VERIF, "coq")):
        for f in files:
            if f.endswith(".v"):
                p = os.path.join(root, f)
                depth = 0
                for ln, line in enumerate(strip_comments(open(p).read()).split("\n"), 1):
                    s = line.strip()
                    if re.match(r"(Section|Module)\s+\w+", s) and ":=" not in s:
                        depth += 1
                    elif re.match(r"End\s+\w+\s*\.", s):
                        depth -= 1
                    elif re.match(r"(Variable|Variables|Hypothesis|Hypotheses|Context)\b", s) and depth <= 0:
                        bad.append("%s:%d: %s (outside a section)" % (p, ln, s))
    return bad


def proof_gate(ctx):
    """returns dict(obligations, discharged, theorems, axioms, problems)"""
    pf = os.path.join(VERIF, "coq", "Props", ctx.prop + ".v")
    res = dict(obligations=0, discharged=0, theorems=[], axioms=[], problems=[])
    if not os.path.exists(pf):
        res["problems"].append("Props/%s.v does not exist" % ctx.prop)
        return res
    src = strip_comments(open(pf).read())
    # the pinned property theorems are the ones named cNN_...; helper lemmas used only by an Example /
    # instance are covered transitively by the Print Assumptions of the theorem that uses them
    thms = [t for t in re.findall(r"^\s*(?:Theorem|Lemma|Corollary)\s+(\w+)", src, re.M) if re.match(r"c\d+_", t)]
    res["theorems"] = thms
    res["obligations"] = len(thms)
    with open(os.path.join(VERIF, "work", ".build.lock"), "w") as lk:
        fcntl.flock(lk, fcntl.LOCK_EX)
        r = sh(["timeout", "3000", "make", "-j%d" % NPROC, "Props/%s.vo" % ctx.prop], cwd=os.path.join(VERIF, "coq"))
        if r.returncode != 0:
            res["problems"].append("make Props/%s.vo failed:\n%s" % (ctx.prop, r.stdout[-2500:]))
            return res
        # re-check the property file itself on every run and read Print Assumptions
        r = sh(["timeout", "1500", "coqc", "-q", "-Q", ".", "Similar", "-w", "-notation-overridden",
                "Props/%s.v" % ctx.prop], cwd=os.path.join(VERIF, "coq"))
    if r.returncode != 0:
        res["problems"].append("coqc Props/%s.v failed:\n%s" % (ctx.prop, r.stdout[-2500:]))
        return res
    out = r.stdout
    pa_order = re.findall(r"^\s*Print\s+Assumptions\s+(\w+)", src, re.M)
    pa_names = set(pa_order)
    n_pa = len([t for t in thms if t in pa_names])
    closed = out.count("Closed under the global context")
    # one answer per Print Assumptions command, in file order: "Closed under the global context" or an "Axioms:" block
    answers = []
    in_ax = False
    for line in out.split("\n"):
        if line.strip() == "Closed under the global context":
            answers.append(set())
            in_ax = False
            continue
        if line.strip() == "Axioms:":
            answers.append(set())
            in_ax = True
            continue
        if in_ax:
            m = re.match(r"^([A-Za-z_][\w.']*)\s*(:.*)?$", line)
            if m:
                answers[-1].add(m.group(1))
            elif line.startswith(" ") or line.startswith("\t"):
                continue       # continuation of a type
            else:
                in_ax = False
    axioms = set().union(*answers) if answers else set()
    res["axioms"] = sorted(axioms)
    allow = set(props.AXIOMS.get(ctx.prop, []))
    if len(answers) != len(pa_order):
        res["problems"].append("%d Print Assumptions commands but %d answers" % (len(pa_order), len(answers)))
        for a in axioms:
            if a not in allow:
                res["problems"].append("axiom %s not in the allowlist of %s" % (a, ctx.prop))
    else:
        # per theorem: its own allowlist (props.AXIOMS_THM) or the property's
        res["theorem_axioms"] = {t: sorted(a) for t, a in zip(pa_order, answers) if a}
        for t, a in zip(pa_order, answers):
            al = set(getattr(props, "AXIOMS_THM", {}).get(t, allow))
            for x in a:
                if x not in al:
                    res["problems"].append("theorem %s rests on axiom %s, which is not in its allowlist" % (t, x))
    if n_pa < len(thms):
        res["problems"].append("only %d Print Assumptions for %d theorems" % (n_pa, len(thms)))
    bad = grep_gate()
    if bad:
        res["problems"].append("grep gate: " + "; ".join(bad[:5]))
    pins = props.PINNED.get(ctx.prop, [])
    for p in pins:
        if p not in thms:
            res["problems"].append("pinned theorem %s missing from Props/%s.v" % (p, ctx.prop))
    # thorough tier: independent re-check of the compiled property file and everything it depends on
    if ctx.tier == "thorough" and not res["problems"]:
        r = sh(["timeout", "3000", "coqchk", "-o", "-silent", "-Q", ".", "Similar", "Similar.Props.%s" % ctx.prop],
               cwd=os.path.join(VERIF, "coq"))
        res["coqchk"] = r.stdout[-1500:]
        if r.returncode != 0:
            res["problems"].append("coqchk failed:\n" + r.stdout[-1500:])
        else:
            m = re.search(r"\* Axioms:(.*?)\n\s*\n\* Constants/Inductives relying on type-in-type:(.*?)\n\s*\n"
                          r"\* Constants/Inductives relying on unsafe \(co\)fixpoints:(.*?)\n\s*\n"
                          r"\* Inductives whose positivity is assumed:(.*?)\n", r.stdout, re.S)
            if not m:
                res["problems"].append("coqchk summary not recognised")
            else:
                ax = [a.strip() for a in m.group(1).split("\n") if a.strip() and a.strip() != "<none>"]
                res["coqchk_axioms"] = ax
                # coqchk -o lists the axioms of EVERY library in the dependency closure of the property file (not
                # only those the pinned theorems rest on, which Print Assumptions above decides per theorem): the
                # bar here is "standard-library axioms only", by exact name
                for a in ax:
                    if not any(a == x or a == "Coq." + x or a.endswith("." + x) for x in AXIOM_ALLOW):
                        res["problems"].append("coqchk reports axiom %s outside the standard-library allowlist" % a)
                for g in (2, 3, 4):
                    if m.group(g).strip() != "<none>":
                        res["problems"].append("coqchk: unsafe feature in use: " + m.group(g).strip()[:200])
    if not res["problems"]:
        res["discharged"] = len(thms)
    res["closed"] = closed
    return res


# ---------------------------------------------------------------- running cases
def shard(lines, k):
    n = len(lines)
    if n == 0:
        return []
    # heavy cases (long sequences) are spread over all processes, light ones in chunks of >= 200;
    # round-robin so that one process does not get all the expensive cases
    total = sum(len(l) for l in lines)
    if total / n > 250:
        k = max(1, min(k, n))
    else:
        k = max(1, min(k, (n + 199) // 200))
    return [lines[i::k] for i in range(k)]


def run_driver(ctx, mode, case_files, impl_files=None, dbg=False):
    procs = []
    for idx, cf in enumerate(case_files):
        cmd = [DRIVER, mode, cf]
        if mode == "check":
            cmd.append(impl_files[idx])
        elif dbg:
            cmd.append("dbg")
        procs.append(subprocess.Popen(["sh", "-c", "ulimit -s unlimited 2>/dev/null; exec \"$@\"", "sh"] + cmd,
                                      stdout=subprocess.PIPE, stderr=subprocess.PIPE, text=True))
    outs = []
    results = [p.communicate() + (p.returncode,) for p in procs]
    for idx, (o, e, rc) in enumerate(results):
        if rc is not None and rc < 0:
            # killed by a signal (the kernel's out-of-memory killer when several memory-hungry shards run side by
            # side): run this shard again on its own, after all the others have finished
            ctx.notes.append("driver %s shard %d was killed by signal %d; re-run alone" % (mode, idx, -rc))
            p = subprocess.Popen(procs[idx].args, stdout=subprocess.PIPE, stderr=subprocess.PIPE, text=True)
            o, e = p.communicate()
            results[idx] = (o, e, p.returncode)
    for o, e, rc in results:
        if rc != 0:
            raise RuntimeError("driver %s failed (rc=%s): %s" % (mode, rc, e[-2000:]))
        outs.append(o.split("\n")[:-1] if o.endswith("\n") else o.split("\n"))
    return outs


def run_batch(ctx, lines, dbg=False, want_model=True, want_check=True, cap=20, procs=None):
    """returns (impl, model, verdicts) line lists"""
    if not lines:
        return [], [], []
    ctx.batch_no += 1
    base = os.path.join(ctx.work, "b%d" % ctx.batch_no)
    chunks = shard(lines, procs or NPROC)   # procs: fewer shards for components whose cases need gigabytes each
    nchunks = len(chunks)
    cfs = []
    for i, ch in enumerate(chunks):
        cf = "%s.%d.cases" % (base, i)
        with open(cf, "w") as f:
            f.write("\n".join(ch) + "\n")
        cfs.append(cf)
    allf = base + ".cases"
    with open(allf, "w") as f:
        f.write("\n".join(lines) + "\n")
    r = subprocess.run([harness_bin(dbg), allf, str(cap)], stdout=subprocess.PIPE, stderr=subprocess.PIPE, text=True)
    impl = r.stdout.split("\n")[:-1]
    if len(impl) != len(lines):
        # the harness process died as a whole (an abort, e.g. a failed allocation or a stack overflow, cannot be caught
        # in-process): run every case of the batch in a process of its own; the cases that die are reported as ABORT
        ctx.notes.append("harness aborted on a batch of %d cases (rc=%s: %s); re-run with one process per case"
                         % (len(lines), r.returncode, r.stderr[-200:].strip()))
        e = dict(os.environ)
        e["HARNESS_ISOLATE"] = "1"
        r = subprocess.run([harness_bin(dbg), allf, str(cap)], stdout=subprocess.PIPE, stderr=subprocess.PIPE, text=True, env=e)
        impl = r.stdout.split("\n")[:-1]
        if len(impl) != len(lines):
            raise RuntimeError("harness returned %d lines for %d cases (rc=%s): %s" % (len(impl), len(lines), r.returncode, r.stderr[-500:]))
    ifs = []
    for i, ch in enumerate(chunks):
        f = "%s.%d.impl" % (base, i)
        with open(f, "w") as fh:
            fh.write("\n".join(impl[i::nchunks]) + "\n")
        ifs.append(f)

    def unshard(outs):
        res = [None] * len(lines)
        for i, o in enumerate(outs):
            if len(o) != len(chunks[i]):
                raise RuntimeError("driver returned %d lines for a shard of %d cases" % (len(o), len(chunks[i])))
            res[i::nchunks] = o
        return res
    model = []
    verd = []
    if want_model:
        model = unshard(run_driver(ctx, "model", cfs, dbg=dbg))
    if want_check:
        verd = unshard(run_driver(ctx, "check", cfs, ifs))
    for f in cfs + ifs + [allf]:
        os.remove(f)
    return impl, model, verd


def parse_line(line):
    toks = [t for t in line.split(" ") if t]
    kv = {}
    for t in toks[1:]:
        if "=" in t:
            k, v = t.split("=", 1)
            kv[k] = v
    return toks[0], kv


def failed_clauses(verdict):
    t = verdict.split(" ")
    return int(t[0]), set(t[1:])


def evaluate(ctx, name, lines, relevant, dbg=False, x=True, nontrivial=None, cap=20, procs=None):
    """Run one batch.  relevant: set of clause names (or fn(comp, kv) -> set) that
    decide this property.  Records K failures and X mismatches in ctx."""
    impl, model, verd = run_batch(ctx, lines, dbg=dbg, want_model=x, cap=cap, procs=procs)
    nclauses = 0
    for i, line in enumerate(lines):
        comp, kv = parse_line(line)
        rel = relevant(comp, kv) if callable(relevant) else relevant
        nev, failed = failed_clauses(verd[i])
        nclauses += nev
        bad = {c for c in failed if c in rel or c.startswith("checker_error")}
        if bad:
            ctx.failures.append(dict(batch=name, case=line, impl=impl[i], model=model[i] if x else None,
                                     clauses=sorted(bad), dbg=dbg))
        if x and model[i] != "ORACLE" and impl[i] != "SKIPPED" and impl[i] != model[i]:
            ctx.mismatches.append(dict(batch=name, case=line, impl=impl[i], model=model[i], dbg=dbg))
        if x and incoq_eligible(comp, kv, line):
            ctx.incoq_pool.append((line, model[i], dbg))
        nt = nontrivial(comp, kv, impl[i]) if nontrivial else default_nontrivial(comp, kv, impl[i])
        if nt:
            ctx.nontrivial.add(hash(line))
    ctx.evaluations += len(lines)
    ctx.count("cases:" + name, len(lines))
    ctx.count("clauses_evaluated", nclauses)
    if lines and len(ctx.samples) < 12:
        k = ctx.rng.randrange(len(lines))
        clip = lambda t: t if len(t) <= 600 else t[:600] + '…[%d chars]' % len(t)
        ctx.samples.append(dict(batch=name, case=clip(lines[k]), impl=clip(impl[k])))
    return impl, model, verd


def default_nontrivial(comp, kv, impl):
    """a case is non-trivial when the implementation's output contains a non-Equal op/call"""
    return bool(re.search(r"[DIR]:", impl.split(" ")[0] if impl else ""))


# ---------------------------------------------------------------- known findings
def load_findings():
    fs = []
    p = os.path.join(VERIF, "KNOWN_FINDINGS.txt")
    if not os.path.exists(p):
        return fs
    for line in open(p):
        line = line.strip()
        if line.startswith("finding:"):
            kv = dict(re.findall(r"(\w+)=(\S+)", line))
            kv["_line"] = line
            fs.append(kv)
    return fs


def attribute_known(ctx, findings):
    """Split ctx.failures into known (per finding) and new.  Attribution rule
    'repair-switch': the failing case is re-run with the cfg(similar_verif)
    swap-repair switch on; it is the known finding iff every failed clause then
    passes."""
    cand = []
    rest = []
    for f in ctx.failures:
        comp, kv = parse_line(f["case"])
        hit = None
        for fd in findings:
            if fd.get("property") != ctx.prop:
                continue
            if fd.get("class") == "repair-switch" and "repair" in kv and kv["repair"] == "0" \
                    and set(f["clauses"]) <= set(fd.get("clauses", "").split(",")):
                hit = fd
                break
            if fd.get("class") == "clause-name" and set(f["clauses"]) <= set(fd.get("clauses", "").split(",")):
                # the verified checker itself classifies the failure (e.g. right by key order, wrong by ratio order)
                k = fd.get("id", "?")
                ent = ctx.known.setdefault(k, [0, None, fd])
                ent[0] += 1
                if ent[1] is None or len(f["case"]) < len(ent[1]["case"]):
                    ent[1] = f
                hit = "direct"
                break
        if hit == "direct":
            continue
        if hit:
            cand.append((f, hit))
        else:
            rest.append(f)
    if cand:
        # the recorded finding is what the PINNED pipeline does: the hand-written model reproduces it exactly (it models
        # the pinned code, swap included).  A failing case is that finding only if (a) the implementation's output is
        # the model's output on it and (b) the failure disappears with the swap-repair switch on.  A different wrong
        # value in the same field (which the switch would also overwrite) fails (a) and is reported.
        need = [f for f, _ in cand if f.get("model") is None]
        if need:
            _, mo, _ = run_batch(ctx, [f["case"] for f in need], dbg=need[0]["dbg"], want_model=True)
            for f, m in zip(need, mo):
                f["model"] = m
        keep = []
        for f, fd in cand:
            if f["model"] in (None, "ORACLE") or f["model"] == f["impl"]:
                keep.append((f, fd))
            else:
                f["note"] = "differs from the model of the pinned pipeline: not the known finding"
                rest.append(f)
        cand = keep
    if cand:
        lines = [re.sub(r"\brepair=0\b", "repair=1", f["case"]) for f, _ in cand]
        impl, model, verd = run_batch(ctx, lines, dbg=cand[0][0]["dbg"], want_model=False)
        for (f, fd), v, im in zip(cand, verd, impl):
            _, failed = failed_clauses(v)
            if not (failed & set(f["clauses"])):
                k = fd.get("id", "?")
                ent = ctx.known.setdefault(k, [0, None, fd])
                ent[0] += 1
                if ent[1] is None or len(f["case"]) < len(ent[1]["case"]):
                    ent[1] = f
            else:
                f["note"] = "still fails with the swap-repair switch on: not the known finding"
                rest.append(f)
    ctx.failures = rest


# ---------------------------------------------------------------- shrink / search
def seq_case_parts(line):
    comp, kv = parse_line(line)
    if "old" not in kv or "new" not in kv or "or" not in kv:
        return None
    if kv.get("idx", "S") != "S":
        return None
    a = [] if kv["old"] == "-" else [int(x) for x in kv["old"].split(",")]
    b = [] if kv["new"] == "-" else [int(x) for x in kv["new"].split(",")]
    os_, oe = map(int, kv["or"].split(":"))
    ns, ne = map(int, kv["nr"].split(":"))
    return comp, kv, a, b, (os_, oe, ns, ne)


def rebuild_line(comp, kv, a, b, r):
    kv = dict(kv)
    kv["old"] = gen.fmt_list(a)
    kv["new"] = gen.fmt_list(b)
    kv["or"] = "%d:%d" % (r[0], r[1])
    kv["nr"] = "%d:%d" % (r[2], r[3])
    order = ["alg", "idx", "or", "nr", "dl", "fail", "stack", "repair", "old", "new"]
    keys = [k for k in order if k in kv] + [k for k in kv if k not in order]
    return comp + " " + " ".join("%s=%s" % (k, kv[k]) for k in keys)


def shrink_candidates(line, chunk=1):
    """the case with one block of [chunk] consecutive items removed from old or from new (ranges adjusted);
    block starts are multiples of chunk, so a round has about (|old| + |new|) / chunk candidates"""
    p = seq_case_parts(line)
    if p is None:
        return []
    comp, kv, a, b, (os_, oe, ns, ne) = p
    out = []

    def cut(lo, hi, i, j):       # range [lo,hi) after removing items [i,j)
        f = lambda x: x - max(0, min(x, j) - i) if x > i else x
        return f(lo), f(hi)
    for i in range(0, len(a), chunk):
        j = min(len(a), i + chunk)
        a2 = a[:i] + a[j:]
        lo, hi = cut(os_, oe, i, j)
        if lo <= hi:
            out.append(rebuild_line(comp, kv, a2, b, (lo, hi, ns, ne)))
    for i in range(0, len(b), chunk):
        j = min(len(b), i + chunk)
        b2 = b[:i] + b[j:]
        lo, hi = cut(ns, ne, i, j)
        if lo <= hi:
            out.append(rebuild_line(comp, kv, a, b2, (os_, oe, lo, hi)))
    if chunk == 1:
        # relabel to first-seen order
        ca, cb = gen.canon_pair(a, b)
        if list(ca) != a or list(cb) != b:
            out.append(rebuild_line(comp, kv, list(ca), list(cb), (os_, oe, ns, ne)))
    return out


def shrink(ctx, fail, relevant, budget_s):
    """delta debugging on the sequences, blocks first (a quarter of the longer side, halved whenever no block can
    be removed), single items last; predicate = some relevant clause still fails on the implementation's output"""
    t_end = time.time() + budget_s
    cur = fail
    p = seq_case_parts(cur["case"])
    chunk = max(1, max(len(p[2]), len(p[3])) // 4) if p else 1
    while time.time() < t_end:
        cands = shrink_candidates(cur["case"], chunk)
        if len(cands) > 400:
            cands = cands[:400]
        nxt = None
        if cands:
            impl, _, verd = run_batch(ctx, cands, dbg=cur["dbg"], want_model=False)
            for c, im, v in zip(cands, impl, verd):
                comp, kv = parse_line(c)
                rel = relevant(comp, kv) if callable(relevant) else relevant
                _, failed = failed_clauses(v)
                bad = {x for x in failed if x in rel}
                if bad and (nxt is None or len(c) < len(nxt["case"])):
                    nxt = dict(cur, case=c, impl=im, clauses=sorted(bad), shrunk_from=fail["case"])
        if nxt is None:
            if chunk == 1:
                break
            chunk = max(1, chunk // 2)
            continue
        cur = nxt
        p = seq_case_parts(cur["case"])
        if p:
            chunk = max(1, min(chunk, max(len(p[2]), len(p[3])) // 2))
    return cur


def neighbours(ctx, line, n):
    """cases near a mismatching case: extend/truncate, all sub-ranges, relabel,
    other algorithms"""
    p = seq_case_parts(line)
    if p is None:
        return []
    comp, kv, a, b, r = p
    out = set()
    alpha = max(a + b + [1]) + 1
    for _ in range(n):
        a2, b2 = list(a), list(b)
        for _ in range(ctx.rng.randrange(1, 3)):
            which = ctx.rng.randrange(4)
            if which == 0 and a2:
                del a2[ctx.rng.randrange(len(a2))]
            elif which == 1 and b2:
                del b2[ctx.rng.randrange(len(b2))]
            elif which == 2:
                a2.insert(ctx.rng.randrange(len(a2) + 1), ctx.rng.randrange(alpha))
            else:
                b2.insert(ctx.rng.randrange(len(b2) + 1), ctx.rng.randrange(alpha))
        if ctx.rng.random() < 0.5:
            rr = gen.rand_subranges(ctx.rng, a2, b2)
        else:
            rr = (0, len(a2), 0, len(b2))
        kv2 = dict(kv)
        if "alg" in kv2 and ctx.rng.random() < 0.3:
            kv2["alg"] = ctx.rng.choice("MPL")
        out.add(rebuild_line(comp, kv2, a2, b2, rr))
    return sorted(out)


def search_failing_input(ctx, mism, relevant, budget_s):
    """X broke but K passed: look for a concrete input on which the property
    itself fails (implementation + verified checker only)."""
    t_end = time.time() + budget_s
    seeds = [m["case"] for m in mism[:8]]
    tried = 0
    while time.time() < t_end and seeds:
        lines = []
        for s in seeds:
            lines += neighbours(ctx, s, 400)
        if not lines:
            break
        impl, _, verd = run_batch(ctx, lines, dbg=mism[0]["dbg"], want_model=False)
        tried += len(lines)
        for c, im, v in zip(lines, impl, verd):
            comp, kv = parse_line(c)
            rel = relevant(comp, kv) if callable(relevant) else relevant
            _, failed = failed_clauses(v)
            bad = {x for x in failed if x in rel}
            if bad:
                return dict(batch="search", case=c, impl=im, model=None, clauses=sorted(bad), dbg=mism[0]["dbg"]), tried
    return None, tried


# ---------------------------------------------------------------- model inside Coq
def incoq_eligible(comp, kv, line):
    """raw / capture cases the model can be run on inside Coq: slice lookups, no hook fault, no adapter stack,
    small inputs and a small expiry index"""
    if comp == "tok":
        return kv.get("kind") in ("lines", "lnl", "words", "chars") and len(kv.get("text", "")) <= 400
    if comp not in ("raw", "capture") or len(line) > 400:
        return False
    if kv.get("idx", "S") != "S" or kv.get("fail", "-") != "-" or kv.get("stack", "none") != "none":
        return False
    dl = kv.get("dl", "-")
    return dl == "-" or (dl.isdigit() and int(dl) < 1000)


def incoq_crosscheck(ctx):
    """Evaluate a sample of this run's cases with vm_compute inside Coq (Check/Render.v) and compare with what the
    extracted model + OCaml driver answered: cross-checks extraction and driver glue."""
    pool = ctx.incoq_pool
    if not pool:
        return
    k = 80 if ctx.tier == "quick" else 800
    rng = random.Random(ctx.seed * 7919 + 13)
    sample = pool if len(pool) <= k else rng.sample(pool, k)
    lst = lambda v: "[" + ";".join(v.split(",")) + "]" if v != "-" else "[]"
    body = ["From Coq Require Import String List. Import ListNotations.",
            "From Coq Require Import NArith.",
            "From Similar Require Import Model.Capture Model.Tokenize Check.Render.", "Set Printing Width 1000000."]
    for line, _, dbg in sample:
        comp, kv = parse_line(line)
        if comp == "tok":
            t = kv["text"]
            bs = "[]" if t == "-" else "[" + ";".join(str(int(t[i:i + 2], 16)) for i in range(0, len(t), 2)) + "]"
            body.append("Eval vm_compute in render_tok %s %s %s%%N." % (
                "true" if kv["mode"] == "bytes" else "false",
                {"lines": "TkLines", "lnl": "TkLinesNewlines", "words": "TkWords", "chars": "TkChars"}[kv["kind"]], bs))
            continue
        alg = {"M": "Myers", "P": "Patience", "L": "Lcs"}[kv["alg"]]
        dl = "None" if kv.get("dl", "-") == "-" else "(Some %s)" % kv["dl"]
        os_, oe = kv["or"].split(":")
        ns, ne = kv["nr"].split(":")
        d = "true" if dbg else "false"
        if comp == "raw":
            body.append("Eval vm_compute in render_raw %s %s %s %s %s %s %s %s %s." % (
                alg, dl, d, lst(kv["old"]), lst(kv["new"]), os_, oe, ns, ne))
        else:
            rp = "true" if kv.get("repair", "0") == "1" else "false"
            body.append("Eval vm_compute in render_capture %s %s %s %s %s %s %s %s %s %s." % (
                alg, dl, d, rp, lst(kv["old"]), lst(kv["new"]), os_, oe, ns, ne))
    wd = os.path.join(VERIF, "work", "incoq-%s-%d" % (ctx.prop, os.getpid()))
    os.makedirs(wd, exist_ok=True)
    vf = os.path.join(wd, "cases.v")
    open(vf, "w").write("\n".join(body) + "\n")
    r = subprocess.run(["timeout", "600", "coqc", "-q", "-noglob", "-Q", os.path.join(VERIF, "coq"), "Similar", vf],
                       stdout=subprocess.PIPE, stderr=subprocess.STDOUT, text=True)
    outs = re.findall(r'=\s*"([^"]*)"%string', r.stdout)
    shutil.rmtree(wd, ignore_errors=True)
    res = dict(sampled=len(sample), pool=len(pool), agree=0, disagree=[])
    if r.returncode != 0 or len(outs) != len(sample):
        res["error"] = "coqc failed or printed %d results for %d cases: %s" % (len(outs), len(sample), r.stdout[-400:])
    else:
        for (line, mo, dbg), co in zip(sample, outs):
            want = re.sub(r" ratio=-?\d+$", "", mo)
            if co == want:
                res["agree"] += 1
            else:
                res["disagree"].append(dict(case=line, in_coq=co, extracted=mo))
    ctx.incoq = res


# ---------------------------------------------------------------- verdict
def write_replay(ctx, n, payload):
    os.makedirs(os.path.join(VERIF, "replays"), exist_ok=True)
    p = os.path.join(VERIF, "replays", "%s-%d.json" % (ctx.prop, n))
    with open(p, "w") as f:
        json.dump(payload, f, indent=1)
    return p


def finish(ctx, gate, spec):
    findings = load_findings()
    relevant = spec["relevant"]
    attribute_known(ctx, findings)
    violations = []
    budget = 20 if ctx.tier == "quick" else 180
    # 1. proof gate
    if gate["problems"] and spec.get("level") == "proof":
        p = write_replay(ctx, 0, dict(kind="proof-gate", property=ctx.prop, problems=gate["problems"],
                                      theorems=gate["theorems"],
                                      note="a theorem or its assumptions no longer check; no failing input"))
        violations.append(("VIOLATION property=%s replay=%s no-failing-input-found" % (ctx.prop, p)))
    # 2. K failures: concrete failing inputs
    if ctx.failures:
        f0 = min(ctx.failures, key=lambda f: len(f["case"]))
        try:
            f1 = shrink(ctx, f0, relevant, budget)
        except Exception as e:      # the shrinker must never cost the verdict
            ctx.notes.append("shrinking failed (%s); the unshrunk case is reported" % str(e)[:200])
            f1 = f0
        p = write_replay(ctx, 1, dict(kind="checker", property=ctx.prop, case=f1["case"], implementation=f1["impl"],
                                      failed_clauses=f1["clauses"], n_failing_cases=len(ctx.failures),
                                      shrunk_from=f1.get("shrunk_from"), note=f1.get("note"),
                                      replay_cmd="tools/check.py %s --replay %s" % (ctx.prop, "<this file>")))
        violations.append("VIOLATION property=%s replay=%s" % (ctx.prop, p))
    # 3. X mismatches with no concrete failing input so far
    elif ctx.mismatches:
        found, tried = search_failing_input(ctx, ctx.mismatches, relevant, budget)
        if found:
            ctx.failures.append(found)
            attribute_known(ctx, findings)
        if found and ctx.failures:
            try:
                f1 = shrink(ctx, found, relevant, budget)
            except Exception as e:
                ctx.notes.append("shrinking failed (%s); the unshrunk case is reported" % str(e)[:200])
                f1 = found
            p = write_replay(ctx, 1, dict(kind="checker", property=ctx.prop, case=f1["case"], implementation=f1["impl"],
                                          failed_clauses=f1["clauses"], found_by="search around a correspondence break",
                                          correspondence_break=ctx.mismatches[0]))
            violations.append("VIOLATION property=%s replay=%s" % (ctx.prop, p))
        else:
            m0 = min(ctx.mismatches, key=lambda m: len(m["case"]))
            p = write_replay(ctx, 2, dict(kind="correspondence", property=ctx.prop, component=m0["batch"],
                                          case=m0["case"], implementation=m0["impl"], model=m0["model"],
                                          n_mismatches=len(ctx.mismatches), searched_inputs=tried,
                                          theorems_resting_on_it=gate["theorems"],
                                          note="model and implementation disagree, so the theorems no longer speak "
                                               "about this code; no input violating the property was found"))
            violations.append("VIOLATION property=%s replay=%s no-failing-input-found" % (ctx.prop, p))
    incoq_crosscheck(ctx)
    if ctx.incoq and (ctx.incoq.get("error") or ctx.incoq["disagree"]):
        p = write_replay(ctx, 3, dict(kind="extraction-crosscheck", property=ctx.prop, result=ctx.incoq,
                                      correspondence="model evaluated inside Coq (vm_compute, Check/Render.v) vs "
                                                     "extracted model + OCaml driver",
                                      note="the executable model used for the correspondence no longer agrees with "
                                           "the Coq definitions the theorems are about; no failing input"))
        violations.append("VIOLATION property=%s replay=%s no-failing-input-found" % (ctx.prop, p))
    for k, (cnt, wit, fd) in sorted(ctx.known.items()):
        print("KNOWN-FINDING: property=%s %s (%s): %d case(s) this run, e.g. %s -> %s" % (
            ctx.prop, k, fd.get("what", fd.get("site", "")), cnt, wit["case"][:300], wit["impl"][:300]))
    write_evidence(ctx, gate, spec, len(violations))
    for v in violations:
        print(v)
    return 1 if violations else 0


def write_evidence(ctx, gate, spec, nviol):
    level = spec.get("level", "proof")
    cov = dict(
        evaluations=ctx.evaluations,
        distinct_nontrivial=len(ctx.nontrivial),
        rule=spec.get("rule", "cases are generated as described in 'generators'; a case is counted as non-trivial "
                              "when the implementation's output for it contains at least one non-Equal op/call; "
                              "distinct = distinct case lines"),
        samples=ctx.samples[:12],
        obligations=gate["obligations"],
        discharged=gate["discharged"],
        checker_cmd="make -C coq Props/%s.vo && coqc -Q coq Similar coq/Props/%s.v (Print Assumptions parsed) ; "
                    "tools/check.py %s --tier %s" % (ctx.prop, ctx.prop, ctx.prop, ctx.tier),
        trusted_base=[
            "Coq 8.16.1 kernel (coqc); vm_compute where a theorem says so; no native_compute",
            "axioms reported by Print Assumptions this run: %s" % (", ".join(gate["axioms"]) or "none (closed under the global context)"),
            "extraction with ExtrOcamlBasic only (bool, option, unit, list, prod, sumbool, sumor; andb, orb inlined); "
            "cross-checked every run on a sample of raw/capture cases against vm_compute inside Coq (model_in_coq_crosscheck)",
            "OCaml driver (parsing/printing glue), Rust harness, tools/check.py comparison",
            "rustc/cargo, ocamlopt, python3",
        ],
        theorems=gate["theorems"],
        coqchk_axioms=gate.get("coqchk_axioms", "not run (quick tier)"),
        theorem_axioms=gate.get("theorem_axioms", {}),
        theorem_status=spec.get("theorem_status", {}),
        generators=spec.get("generators", ""),
        input_distribution=ctx.dist,
        correspondence_mismatches=len(ctx.mismatches),
        checker_failures=len(ctx.failures),
        known_findings={k: v[0] for k, v in ctx.known.items()},
        exhaustive=False,
        explanation=spec.get("explanation", ""),
        programs=ctx.evaluations,
        disagreements_checked=len(ctx.mismatches),
        source_drift=ctx.drift,
        notes=ctx.notes,
        model_in_coq_crosscheck=(dict(sampled=ctx.incoq["sampled"], eligible_pool=ctx.incoq["pool"],
                                      agree=ctx.incoq["agree"], disagree=len(ctx.incoq["disagree"]),
                                      error=ctx.incoq.get("error"),
                                      what="raw/capture/tok cases of this run re-evaluated with vm_compute inside Coq "
                                           "(Check/Render.v) and compared with the extracted model + OCaml driver")
                                 if ctx.incoq else "no eligible raw/capture/tok case in this run"),
    )
    ev = dict(
        property_id=ctx.prop,
        tier=ctx.tier,
        seed=ctx.seed,
        level=level,
        coverage=cov,
        assumptions=spec.get("assumptions", []) + [
            "usize arithmetic does not wrap: no in-memory sequence reaches 2^64 items",
            "the correspondence check ties the hand-written model to /repo's working tree on the inputs listed in input_distribution; it is differential testing, not proof",
        ],
        wall_s=round(time.time() - ctx.t0, 2),
        violations=nviol,
    )
    os.makedirs(os.path.join(VERIF, "evidence"), exist_ok=True)
    with open(os.path.join(VERIF, "evidence", ctx.prop + ".json"), "w") as f:
        json.dump(ev, f, indent=1)


# ---------------------------------------------------------------- main
def replay(ctx, path, spec):
    d = json.load(open(path))
    if "case" not in d:
        print("replay file names a broken proof obligation, nothing to run: %s" % d.get("problems"))
        return 0
    line = d["case"]
    err = build_all(ctx, True)
    if err:
        print(err)
        return 1
    impl, model, verd = run_batch(ctx, [line])
    print("case :", line)
    print("impl :", impl[0])
    print("model:", model[0])
    print("failed clauses:", verd[0])
    _, failed = failed_clauses(verd[0])
    comp, kv = parse_line(line)
    rel = spec["relevant"](comp, kv) if callable(spec["relevant"]) else spec["relevant"]
    return 1 if (failed & rel) or impl[0] != model[0] else 0


def main():
    args = sys.argv[1:]
    if not args:
        print(__doc__)
        return 2
    prop = args[0]
    tier = os.environ.get("VERIF_TIER", "quick")
    rp = None
    i = 1
    while i < len(args):
        if args[i] == "--tier":
            tier = args[i + 1]
            i += 2
        elif args[i] == "--replay":
            rp = args[i + 1]
            i += 2
        else:
            i += 1
    seed = int(os.environ.get("VERIF_SEED", "1"))
    ctx = Ctx(prop, tier, seed)
    spec = props.SPECS[prop]
    try:
        if rp:
            return replay(ctx, rp, spec)
        gate = proof_gate(ctx)
        err = build_all(ctx, spec.get("need_debug", False))
        if err:
            # the harness uses only the public API + the cfg(similar_verif) hooks
            p = write_replay(ctx, 3, dict(kind="build", property=prop, problem=err))
            write_evidence(ctx, gate, spec, 1)
            print("VIOLATION property=%s replay=%s no-failing-input-found" % (prop, p))
            return 1
        spec["run"](ctx)
        return finish(ctx, gate, spec)
    finally:
        ctx.cleanup()


if __name__ == "__main__":
    sys.exit(main())
