#!/bin/sh
# MANIFEST.setup_cmd: build the whole framework offline from files on disk.
set -e
cd "$(dirname "$0")/.."
export CARGO_NET_OFFLINE=true
mkdir -p work evidence replays
# 1. Coq: full .vo build of the model, specs, checkers, proofs, property files
cd coq
coq_makefile -f _CoqProject -o Makefile > /dev/null
timeout 3000 make -j16 > ../work/setup-coq.log 2>&1 || { tail -50 ../work/setup-coq.log; exit 1; }
cd ..
# 2. OCaml driver around the extracted model
sh ocaml/build.sh
# 3. Rust harness against /repo (release + debug), hooks on
cd harness
[ -f Cargo.lock ] || cp /repo/Cargo.lock .
RUSTFLAGS="--cfg similar_verif" CARGO_TARGET_DIR="$PWD/target" cargo build --release --offline > ../work/setup-cargo.log 2>&1 || { tail -50 ../work/setup-cargo.log; exit 1; }
RUSTFLAGS="--cfg similar_verif" CARGO_TARGET_DIR="$PWD/target" cargo build --offline >> ../work/setup-cargo.log 2>&1 || { tail -50 ../work/setup-cargo.log; exit 1; }
echo "setup ok"
