#!/bin/sh
# usage: tools/seed_regress.sh [out-file]   — re-evaluates every seeded mutation against the check(s) named first in
# its meta.json (caught_by[0]); sequential (each evaluation patches /repo).  Do not run anything else meanwhile.
out="${1:-/var/tmp/sv/seed_regress.log}"
cd /verif
: > "$out"
for d in seeded/*/; do
  d="${d%/}"
  checks=$(python3 - "$d" <<'PY'
import json,re,sys
m=json.load(open(sys.argv[1]+'/meta.json'))
c=re.findall(r'C\d\d', m['caught_by'][0])
c=c[:1] if c else [m['property']]
print(" ".join(c))
PY
)
  t0=$(date +%s)
  res=$(timeout 2400 tools/seed_eval.sh "$d" $checks 2>&1 | grep -c "^VIOLATION")
  t1=$(date +%s)
  echo "$d $checks violations=$res $((t1-t0))s" >> "$out"
  git -C /repo checkout -- . 2>/dev/null
done
echo DONE >> "$out"
