"""Case generators.  Every random choice comes from the one random.Random passed
in, so a run replays exactly from VERIF_SEED.  A case is one text line:
"<component> key=value ..." (see DESIGN.md section 4)."""
import itertools


def fmt_list(xs):
    return ",".join(str(x) for x in xs) if xs else "-"


def all_seqs(alpha, maxlen):
    out = []
    for n in range(maxlen + 1):
        for t in itertools.product(range(alpha), repeat=n):
            out.append(list(t))
    return out


def all_pairs(alpha, maxlen):
    ss = all_seqs(alpha, maxlen)
    for a in ss:
        for b in ss:
            yield a, b


def all_ranges(n):
    for s in range(n + 1):
        for e in range(s, n + 1):
            yield s, e


def canon_pair(a, b):
    """relabel items in first-seen order (old then new): same equality pattern"""
    m = {}
    ra = []
    for x in a:
        ra.append(m.setdefault(x, len(m)))
    rb = []
    for x in b:
        rb.append(m.setdefault(x, len(m)))
    return tuple(ra), tuple(rb)


# ---------- structured random pairs ----------
def rand_seq(rng, n, alpha):
    return [rng.randrange(alpha) for _ in range(n)]


def edit_seq(rng, a, k, alpha):
    b = list(a)
    for _ in range(k):
        r = rng.random()
        if r < 0.35 and b:
            del b[rng.randrange(len(b))]
        elif r < 0.7:
            b.insert(rng.randrange(len(b) + 1), rng.randrange(alpha))
        elif b:
            b[rng.randrange(len(b))] = rng.randrange(alpha)
    return b


def block_move(rng, a):
    if len(a) < 4:
        return list(a)
    i = rng.randrange(len(a) - 1)
    j = rng.randrange(i + 1, len(a))
    blk = a[i:j]
    rest = a[:i] + a[j:]
    p = rng.randrange(len(rest) + 1)
    return rest[:p] + blk + rest[p:]


def structured_pair(rng, maxlen):
    """near-identical, block moves, periodic, low entropy, unique-rich, unrelated"""
    kind = rng.randrange(7)
    n = rng.randrange(0, maxlen + 1)
    if kind == 0:  # near identical, few edits, small alphabet
        alpha = rng.choice([2, 3, 4])
        a = rand_seq(rng, n, alpha)
        b = edit_seq(rng, a, rng.randrange(0, 4), alpha)
    elif kind == 1:  # block move
        alpha = rng.choice([3, 5, 50])
        a = rand_seq(rng, n, alpha)
        b = block_move(rng, a)
    elif kind == 2:  # periodic
        p = rng.choice([1, 2, 3])
        a = [i % p for i in range(n)]
        m = rng.randrange(0, maxlen + 1)
        off = rng.randrange(p)
        b = [(i + off) % p for i in range(m)]
        b = edit_seq(rng, b, rng.randrange(0, 3), p + 1)
    elif kind == 3:  # low entropy, unrelated
        a = rand_seq(rng, n, 2)
        b = rand_seq(rng, rng.randrange(0, maxlen + 1), 2)
    elif kind == 4:  # unique rich (Patience anchors), with some duplicates
        a = list(range(n))
        rng.shuffle(a)
        b = edit_seq(rng, block_move(rng, a), rng.randrange(0, 4), n + 3)
        if a and rng.random() < 0.5:
            a.insert(rng.randrange(len(a) + 1), rng.choice(a))
    elif kind == 5:  # repeats next to edits (compaction slides)
        alpha = 2
        a = []
        while len(a) < n:
            a += [rng.randrange(alpha)] * rng.randrange(1, 4)
        a = a[:n]
        b = list(a)
        for _ in range(rng.randrange(1, 4)):
            p = rng.randrange(len(b) + 1)
            run = [b[p - 1] if p > 0 and b else rng.randrange(alpha)] * rng.randrange(1, 3)
            if rng.random() < 0.5:
                b = b[:p] + run + b[p:]
            else:
                b = b[:p] + b[p + len(run):]
    else:  # unrelated, large alphabet
        a = rand_seq(rng, n, 1000)
        b = rand_seq(rng, rng.randrange(0, maxlen + 1), 1000)
    return a, b


def rand_subranges(rng, a, b):
    os_ = rng.randrange(len(a) + 1)
    oe = rng.randrange(os_, len(a) + 1)
    ns = rng.randrange(len(b) + 1)
    ne = rng.randrange(ns, len(b) + 1)
    return os_, oe, ns, ne


# ---------- case lines ----------
def raw_line(alg, a, b, rng_=None, idx="S", dl=None, fail=None, stack="none"):
    if rng_ is None:
        rng_ = (0, len(a), 0, len(b))
    os_, oe, ns, ne = rng_
    if idx != "S":
        ko, kn = idx
        idxs = "O%d:%d" % (ko, kn)
        os_, oe, ns, ne = os_ + ko, oe + ko, ns + kn, ne + kn
    else:
        idxs = "S"
    line = "raw alg=%s idx=%s or=%d:%d nr=%d:%d dl=%s fail=%s stack=%s old=%s new=%s" % (
        alg, idxs, os_, oe, ns, ne,
        "-" if dl is None else dl, "-" if fail is None else fail, stack,
        fmt_list(a), fmt_list(b))
    # which public entry point runs the algorithm: the dispatcher algorithms::diff_deadline (default), the
    # algorithm's own module function (myers:: / patience:: / lcs::diff_deadline), or the variants without a
    # deadline parameter (algorithms::diff, <module>::diff) when no deadline is set; chosen from a hash of the case
    import zlib
    h = zlib.crc32(line.encode())
    vias = ["dispatch", "module"] if dl is not None else ["dispatch", "module", "module_nodl", "dispatch_nodl"]
    via = vias[h % len(vias)]
    return line if via == "dispatch" else line + " via=" + via


def capture_line(alg, a, b, rng_=None, idx="S", dl=None, repair=0):
    if rng_ is None:
        rng_ = (0, len(a), 0, len(b))
    os_, oe, ns, ne = rng_
    if idx != "S":
        ko, kn = idx
        idxs = "O%d:%d" % (ko, kn)
        os_, oe, ns, ne = os_ + ko, oe + ko, ns + kn, ne + kn
    else:
        idxs = "S"
    return "capture alg=%s idx=%s or=%d:%d nr=%d:%d dl=%s repair=%d old=%s new=%s" % (
        alg, idxs, os_, oe, ns, ne, "-" if dl is None else dl, repair,
        fmt_list(a), fmt_list(b))


def fmt_call(c):
    return ":".join(str(x) for x in c)


def fmt_calls(cs):
    return ",".join(fmt_call(c) for c in cs) if cs else "-"


def adapter_line(a, b, script, stack, fail=None, repair=0):
    return "adapter stack=%s fail=%s repair=%d old=%s new=%s script=%s" % (
        stack, "-" if fail is None else fail, repair, fmt_list(a), fmt_list(b), fmt_calls(script))


# ---------- valid edit scripts ----------
def all_scripts(a, b, limit=None):
    """all valid raw scripts for a -> b (calls with positive lengths, exact
    carried indices, Equal only over element-wise equal segments, maximal
    freedom in how runs are split and interleaved), each ending with F"""
    n, m = len(a), len(b)
    out = []

    def rec(i, j, acc):
        if limit is not None and len(out) >= limit:
            return
        if i == n and j == m:
            out.append(acc + [("F",)])
            return
        # equal segments
        l = 0
        while i + l < n and j + l < m and a[i + l] == b[j + l]:
            l += 1
            rec(i + l, j + l, acc + [("E", i, j, l)])
        for l in range(1, n - i + 1):
            rec(i + l, j, acc + [("D", i, l, j)])
        for l in range(1, m - j + 1):
            rec(i, j + l, acc + [("I", i, j, l)])

    rec(0, 0, [])
    return out


def random_script(rng, a, b, p_eq=0.8):
    """a random valid script: walks both sequences, takes equal segments with
    probability p_eq when possible, otherwise random delete/insert runs"""
    n, m = len(a), len(b)
    i = j = 0
    cs = []
    while i < n or j < m:
        can_eq = i < n and j < m and a[i] == b[j]
        if can_eq and rng.random() < p_eq:
            l = 1
            while i + l < n and j + l < m and a[i + l] == b[j + l] and rng.random() < 0.7:
                l += 1
            cs.append(("E", i, j, l))
            i += l
            j += l
        else:
            choices = []
            if i < n:
                choices.append("D")
            if j < m:
                choices.append("I")
            k = rng.choice(choices)
            if k == "D":
                l = rng.randrange(1, min(3, n - i) + 1)
                cs.append(("D", i, l, j))
                i += l
            else:
                l = rng.randrange(1, min(3, m - j) + 1)
                cs.append(("I", i, j, l))
                j += l
    cs.append(("F",))
    return cs


# ---------- alternating op lists for grouping ----------
def alternating_lists(n, max_runs, kinds=("D", "I", "R"), start=(0, 0)):
    """all alternating op lists with <= max_runs runs, run lengths around the
    boundaries of radius n, change kinds cycled"""
    lens = sorted({x for x in (1, n - 1, n, n + 1, 2 * n - 1, 2 * n, 2 * n + 1, 2 * n + 2) if x >= 1})
    for runs in range(0, max_runs + 1):
        for start_eq in (True, False):
            pattern = [(k % 2 == 0) == start_eq for k in range(runs)]
            neq = sum(1 for p in pattern if p)
            nch = runs - neq
            for eqlens in itertools.product(lens, repeat=neq):
                for chk in itertools.product(kinds, repeat=nch):
                    ops = []
                    i, j = start
                    ei = ci = 0
                    for p in pattern:
                        if p:
                            l = eqlens[ei]
                            ei += 1
                            ops.append(("E", i, j, l))
                            i += l
                            j += l
                        else:
                            k = chk[ci]
                            ci += 1
                            if k == "D":
                                ops.append(("D", i, 2, j))
                                i += 2
                            elif k == "I":
                                ops.append(("I", i, j, 1))
                                j += 1
                            else:
                                ops.append(("R", i, 1, j, 2))
                                i += 1
                                j += 2
                    yield ops


def random_alternating(rng, n, start=(0, 0)):
    runs = rng.randrange(0, 12)
    start_eq = rng.random() < 0.5
    ops = []
    i, j = start
    for k in range(runs):
        if (k % 2 == 0) == start_eq:
            l = rng.choice([1, 2, max(1, n), n + 1, 2 * n, 2 * n + 1, 2 * n + 2, 3 * n + 5, rng.randrange(1, 30)])
            ops.append(("E", i, j, l))
            i += l
            j += l
        else:
            kd = rng.choice("DIR")
            if kd == "D":
                l = rng.randrange(1, 5)
                ops.append(("D", i, l, j))
                i += l
            elif kd == "I":
                l = rng.randrange(1, 5)
                ops.append(("I", i, j, l))
                j += l
            else:
                l1, l2 = rng.randrange(1, 4), rng.randrange(1, 4)
                ops.append(("R", i, l1, j, l2))
                i += l1
                j += l2
    return ops


# ---------- texts ----------
def hx(b):
    return b.hex() if b else "-"


VALID_SYMS = [b"a", b"b", b" ", b"\r", b"\n", b"\xc2\xa0", b"\xe2\x80\xa8", b"\xe3\x80\x80", b"\xc2\x85",
              b"\xcc\x81", b"\xe2\x80\x8d", b"\xf0\x9f\x87\xa9", b"\x00", b"\t", b"\xc3\xa9", b".",
              b"\x7f", b"\x1a", b"\xef\xbb\xbf", b"\x0b", b"\x0c"]
INVALID_SYMS = [b"\xe0\xa0", b"\xff", b"\xc0", b"\x80", b"\xf0\x90\x80", b"\xed\xa0\x80", b"\xf4\x90", b"\xc2"]
# bytes / characters that are NOT line terminators but sit next to LF and CR in the code space or are line
# breaks in other conventions: a line (in particular the unterminated last line) may end in one of them
NEAR_NL = [b"\x0b", b"\x0c", b"\x09", b"\x0e", b"\x08", b"\x1c", b"\x1d", b"\x1e", b"\x1f", b"\xc2\x85",
           b"\xe2\x80\xa8", b"\xe2\x80\xa9", b" "]


def all_texts(syms, maxlen):
    out = []
    for n in range(maxlen + 1):
        for t in itertools.product(syms, repeat=n):
            out.append(b"".join(t))
    return out


def rand_text(rng, maxsyms, invalid=False, line_bias=False):
    syms = VALID_SYMS + (INVALID_SYMS if invalid else [])
    n = rng.randrange(0, maxsyms + 1)
    out = []
    for _ in range(n):
        r = rng.random()
        if line_bias and r < 0.25:
            out.append(rng.choice([b"\n", b"\r\n", b"\r", b"\n"]))
        elif r < 0.6:
            out.append(rng.choice([b"a", b"b", b"foo", b"bar", b" "]))
        else:
            out.append(rng.choice(syms))
    return b"".join(out)


WORDS = [b"foo", b"bar", b"baz", b"qux", b"x", b"caf\xc3\xa9", b"\xe4\xb8\x96\xe7\x95\x8c", b"a.b", b"12"]


def rand_line(rng, invalid=False):
    k = rng.randrange(0, 6)
    parts = []
    for i in range(k):
        parts.append(rng.choice(WORDS + ([b"\xff", b"\xe0\xa0"] if invalid else [])))
        if i + 1 < k:
            parts.append(rng.choice([b" ", b"  ", b"\t", b", ", b"\xc2\xa0"]))
    return b"".join(parts)


def rand_lines_text(rng, maxlines, invalid=False, alphabet=None):
    """a text made of lines; small line alphabet so that diffs have repeats"""
    n = rng.randrange(0, maxlines + 1)
    if alphabet is None:
        alphabet = [rand_line(rng, invalid) for _ in range(rng.randrange(1, 6))] + [b"", b"a", b"b"]
        if rng.random() < 0.3:
            alphabet.append(rng.choice([b"", b"x", b"foo bar"]) + rng.choice(NEAR_NL))
    out = []
    for i in range(n):
        out.append(rng.choice(alphabet))
        if i + 1 < n or rng.random() < 0.7:
            out.append(rng.choice([b"\n", b"\n", b"\n", b"\r\n", b"\r"]))
        elif rng.random() < 0.3:
            out.append(rng.choice(NEAR_NL))      # unterminated last line ending in a near-newline byte
    return b"".join(out), alphabet


def edit_lines_text(rng, text, alphabet):
    """edit a line text: delete/insert/replace/modify-one-word of some lines"""
    import re as _re
    lines = _re.findall(rb"[^\r\n]*(?:\r\n|\r|\n)|[^\r\n]+", text)
    for _ in range(rng.randrange(0, 4)):
        r = rng.random()
        if r < 0.3 and lines:
            del lines[rng.randrange(len(lines))]
        elif r < 0.55:
            lines.insert(rng.randrange(len(lines) + 1), rng.choice(alphabet) + rng.choice([b"\n", b"\r\n", b"\r"]))
        elif lines:
            k = rng.randrange(len(lines))
            l = lines[k]
            # change one word of the line (inline diffs)
            ws = l.split(b" ")
            ws[rng.randrange(len(ws))] = rng.choice(WORDS)
            nl = b" ".join(ws)
            if not nl.endswith((b"\n", b"\r")) and rng.random() < 0.8:
                nl += b"\n"
            lines[k] = nl
    out = b"".join(lines)
    if rng.random() < 0.15 and out.endswith(b"\n"):
        out = out[:-1]
        if rng.random() < 0.3:
            out += rng.choice(NEAR_NL)
    return out


def tokens_text(rng, ntok, sep=b"\n", alpha=6):
    """a text with exactly ntok line tokens over a small alphabet"""
    return b"".join(str(rng.randrange(alpha)).encode() + sep for _ in range(ntok))
