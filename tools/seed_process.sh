#!/bin/sh
# usage: tools/seed_process.sh <Cxx> [check ids...]   (round-2 seeds from /tmp/mut2-<Cxx>-out)
p="$1"; shift
checks="${*:-$p}"
d=seeded/$p-r2
mkdir -p $d && cp /tmp/mut2-$p-out/patch.diff /tmp/mut2-$p-out/demo.rs /tmp/mut2-$p-out/notes.md $d/ || exit 2
echo "=== confirm $p"; tools/seed_confirm.sh $d 2>&1 | tail -4 | cut -c1-160
for c in $checks; do
  echo "=== eval $p with check $c"
  tools/seed_eval.sh $d $c 2>&1 | grep -E "^VIOLATION|^KNOWN|\"case\"|\"implementation\"|\"failed_clauses\"|n_failing|n_mismatches|\"component\"" -A1 | grep -v "^--" | cut -c1-240 | head -14
done
git -C /repo worktree remove --force /tmp/mut2-$p 2>/dev/null
