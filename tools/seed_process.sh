#!/bin/sh
# usage: tools/seed_process.sh <round> <Cxx> [check ids...]   (seeds from /tmp/mut<round>-<Cxx>-out)
r="$1"; p="$2"; shift; shift
checks="${*:-$p}"
d=seeded/$p-r$r
mkdir -p $d && cp /tmp/mut$r-$p-out/patch.diff /tmp/mut$r-$p-out/demo.rs /tmp/mut$r-$p-out/notes.md $d/ || exit 2
echo "=== confirm $p (round $r)"; tools/seed_confirm.sh $d 2>&1 | tail -2 | cut -c1-160
for c in $checks; do
  echo "=== eval $p with check $c"
  tools/seed_eval.sh $d $c 2>&1 | grep -E "^VIOLATION|^KNOWN|\"case\"|\"implementation\"|\"failed_clauses\"|n_failing|n_mismatches|\"component\"" -A1 | grep -v "^--" | cut -c1-240 | head -14
done
git -C /repo worktree remove --force /tmp/mut$r-$p 2>/dev/null
