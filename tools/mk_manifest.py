#!/usr/bin/env python3
"""Regenerates MANIFEST.json from tools/props.py (SPECS[..]['manifest'])."""
import json, os, sys
VERIF = os.path.dirname(os.path.dirname(os.path.abspath(__file__)))
sys.path.insert(0, os.path.join(VERIF, "tools"))
import props

ALL = ["C%02d" % i for i in range(1, 21)]
checks = []
na = []
for pid in ALL:
    spec = props.SPECS.get(pid)
    if spec and spec.get("manifest"):
        m = spec["manifest"]
        checks.append(dict(
            property_id=pid,
            quick_cmd="python3 tools/check.py %s --tier quick" % pid,
            thorough_cmd="python3 tools/check.py %s --tier thorough" % pid,
            evidence_file="/verif/evidence/%s.json" % pid,
            replay_cmd_template="python3 tools/check.py %s --replay {path}" % pid,
            engine="coq-model+correspondence",
            level_claimed=dict(category=spec.get("level", "proof"), text=m["text"], design_ref=m.get("design_ref", "DESIGN.md section 8")),
            level_note=m["note"],
            technique=m["technique"],
        ))
    else:
        na.append(dict(property_id=pid, reason=(spec or {}).get("na_reason", "check under construction in this round: model/theorems not yet registered (see DESIGN.md section 11)")))

man = dict(
    version=1,
    setup_cmd="sh tools/setup.sh",
    hooks=dict(
        guard="similar_verif",
        enable="RUSTFLAGS=\"--cfg similar_verif\" cargo build (the harness crate /verif/harness depends on /repo by path)",
        baseline_off_cmd="cd /repo && cargo test --workspace --no-fail-fast --offline",
        source_commits=["593dbecb5ab917da38266ea4527fe5dba471fa5f", "0491e7fbc8ff87c7970e31670056285c28b2eddf",
                        "2fbbe40fbeff341fa4bca2ccc28dbdc813f83e30", "e6f991dba11e39e8d3ce847e06c649d1346813d3", "32af94f0698c5ebd41508108136db94eff82822a"],
        add_only=True,
    ),
    engines=[dict(name="coq-model+correspondence", path="/verif/coq, /verif/ocaml, /verif/harness, /verif/tools",
                  serves_properties=[c["property_id"] for c in checks],
                  kind_free_text="Rocq/Coq 8.16.1 theorems about a hand-written executable Gallina model; the model "
                                 "(extracted to OCaml, ExtrOcamlBasic only) and Coq-verified boolean checkers are run "
                                 "against the real crate (Rust harness, path dependency on /repo, rebuilt every run)")],
    checks=checks,
    not_applicable=na,
    notes="Every check: (1) re-checks Props/<id>.v with coqc and compares Print Assumptions with an allowlist, (2) rebuilds "
          "the harness from /repo's working tree with --cfg similar_verif, (3) runs model and implementation on the same "
          "generated cases and compares every observable, (4) runs the verified checkers on the implementation's outputs. "
          "KNOWN_FINDINGS.txt lists the one recorded defect (F5) and the repaired ones.",
)
json.dump(man, open(os.path.join(VERIF, "MANIFEST.json"), "w"), indent=1)
print("checks:", [c["property_id"] for c in checks])
